"""C04 every tzinfo converts UTC -> local -> UTC without loss (tzfile zones here; rule zones in C08/C17 cells)."""
from engine import chx, report, tsdt
from engine import sym as S
from engine.chx import Cell
from harness import tzf

M = "harness.tzf"
MF = "harness.c04"


def h_fixed(kind):
    """tzutc / tzoffset with a symbolic offset (incl. sub-minute) and a symbolic instant."""
    from dateutil import tz
    types = dict(u=int, off=int)

    def fn(ctx, u, off):
        ctx.assume(S.within(u, -3 * 10 ** 9, 5 * 10 ** 9))
        ctx.assume(S.within(off, -86399, 86399))
        if kind == "tzutc":
            z = tz.tzutc()
            ctx.assume(off == 0)
        else:
            z = tz.tzoffset.instance("X", off)
        dt = tsdt.mk(ctx, u, z)
        wall = z.fromutc(dt)
        w = tsdt.ts_of(wall)
        ctx.check(S.eq(S.sub(w, u), tsdt.secs(wall.utcoffset())), "utcoffset != wall - UTC", key="%s:offset" % kind)
        ctx.check(S.eq(S.sub(w, u), off), "fixed zone applies a different offset than it was built with", key="%s:value" % kind)
        ctx.check(S.eq(tsdt.ts_of(wall.astimezone(tz.UTC)), u), "round trip loses the instant", key="%s:roundtrip" % kind)
        ctx.check(tsdt.secs(wall.dst()) == 0, "fixed zone reports dst", key="%s:dst" % kind)
        return None
    return fn, types


def h_fixed_pairs(form):
    """Two fixed-offset zones requested one after the other through the real factory (its cache) and both kept alive: each
    converts a UTC instant with the offset IT was requested with.  The second offset is related to the first (equal,
    negated, exactly 24 h away, a fraction of a second away, same seconds-of-day); hours / quarter hours / relation are
    pinned per path; real datetimes, native."""
    import datetime
    from dateutil import tz
    types = dict(h=int, m=int, neg=bool, rel=int, named=bool)
    when = datetime.datetime(2021, 3, 4, 12, 0, 0, tzinfo=tz.UTC)

    def fn(ctx, h, m, neg, rel, named):
        ctx.assume(S.within(h, 0, 23))
        ctx.assume(S.within(m, 0, 3))
        ctx.assume(S.within(rel, 0, 5))
        h, m, neg, rel, named = ctx.concrete(h), ctx.concrete(m) * 15, ctx.concrete(neg), ctx.concrete(rel), ctx.concrete(named)
        o1 = datetime.timedelta(minutes=(-1 if neg else 1) * (h * 60 + m))
        o2 = [o1, -o1, o1 - datetime.timedelta(days=1), o1 + datetime.timedelta(days=1), o1 + datetime.timedelta(microseconds=500000),
              o1 + datetime.timedelta(hours=1)][rel]
        if not (datetime.timedelta(days=-1) < o2 < datetime.timedelta(days=1)):
            ctx.assume(False)
        if ctx.symbolic:
            return None
        with ctx.untraced():
            name = "X" if named else None

            def req(off):
                if form == "int" and off.microseconds == 0:
                    return tz.tzoffset(name, int(off.total_seconds()))
                return tz.tzoffset(name, off)
            alive = []
            for off in (o1, o2, o1):
                z = req(off)
                alive.append((z, off))
                for (zz, oo) in alive:
                    w = when.astimezone(zz)
                    ctx.check(w.utcoffset() == oo and w.replace(tzinfo=None) - when.replace(tzinfo=None) == oo,
                              "tzoffset requested with %s converts with %s after the requests %s" % (oo, w.utcoffset(), [str(a[1]) for a in alive]),
                              key="tzoffset-pairs:%s:offset" % form)
                    ctx.check(w.astimezone(tz.UTC) == when, "round trip through a fixed-offset zone loses the instant", key="tzoffset-pairs:%s:roundtrip" % form)
        return None
    return fn, types


def cells(tier, seed):
    q = tier == "quick"
    cs = [Cell(MF, "h_fixed", dict(kind="tzutc"), budget_s=60), Cell(MF, "h_fixed", dict(kind="tzoffset"), budget_s=60),
          Cell(MF, "h_fixed_pairs", dict(form="int"), budget_s=120), Cell(MF, "h_fixed_pairs", dict(form="timedelta"), budget_s=120)]
    # rule zones (tzstr / tzrange / tzlocal / tzical): the clean rule specs of C08, UTC-instant mode
    from harness import c08, posixtz
    specs = [s for s in c08.specs(tier) if not (s.get("dst") and (posixtz.rule_time(s["end"]) < posixtz.dstoff(s) - s["stdoff"] or posixtz.rule_time(s["start"]) >= 86400))]
    for spec in specs:
        for kind in ("tzstr", "tzrange", "tzlocal", "tzical:rrule"):
            if kind == "tzstr" and spec.get("no_tzstr"):
                continue
            if kind.startswith("tzical") and not (spec.get("dst") and spec["start"][0] == "M" and spec["end"][0] == "M"):
                continue
            for y in ((2024,) if not kind.startswith("tzical") else (1972,)):
                cs.append(Cell("harness.c08", "h_rule", dict(kind=kind, spec=spec, year=y, wallmode=False),
                               name="%s[%s]@%d/utc" % (kind, posixtz.render(spec), y), budget_s=120, per_path_s=20, max_violations=50))
    for (n, p) in tzf.zone_list(tier, seed):
        cs.append(Cell(M, "h_utc", dict(name=n, path=p, clauses=["c04"]), name="utc[%s]" % n,
                       budget_s=150 if q else 600, per_path_s=20, max_violations=400))
    return cs


ASSUMPTIONS = [
    "instants are whole seconds; datetimes handed to the zone are timestamp-backed stand-ins (engine/tsdt.py, a datetime subclass "
    "overriding every operation the tz code uses), validated against real datetime on each run; float total_seconds() rounding is not modelled",
    "UTC instant symbolic over [first transition - 10**6 s, last transition + 10**6 s] of each zone file (or +-10**6 s for files without transitions)",
    "quick tier: a fixed list of awkward zones plus 8 seeded ones; thorough: every distinct TZif file under /usr/share/zoneinfo",
    "fixed-offset pairs: two related offsets (equal / negated / 24 h apart / half a second apart / one hour apart) requested through the real factory and kept alive, pinned per path, native",
    "sub-second instants: one microsecond before / after the transition opening each interval of every zone file, on real datetimes in the native replay",
    "rule zones: tzstr / tzrange / tzlocal (platform model) / tzical built from C08's rule specs (those without a recorded tzstr finding), instant over one year +-3 days; more rules and years in C08 / C17",
]
OUTSIDE = ["sub-second instants other than the microsecond next to each transition", "Windows registry zones", "instants more than 10**6 s outside the file's transition table"]


def run(tier, seed, jobs):
    n, bad = tsdt.validate(seed, 1500)
    errs = [dict(kind="stub-validation", stub="TsDT", sample=repr(b)) for b in bad[:5]]
    cs = report.filter_cells(cells(tier, seed))
    res = chx.run_cells(cs, jobs)
    return report.aggregate("C04", res, assumptions=ASSUMPTIONS, bounds=dict(zones=len(cs) - 2), outside=OUTSIDE,
                            stubs=["TsDT"], extra_errors=errs, stub_validation=dict(TsDT=dict(cases=n, mismatches=len(bad))))
