"""E1 `chx` -- path-exhaustive symbolic execution of real dateutil functions.

CrossHair 0.0.110 is used as a library.  `explore()` re-implements
crosshair.core.explore_paths with
  * the exhaustion flag of the path tree and a count of UNKNOWN leaves,
  * violations recorded in a side list (the leaf is marked CONFIRMED so the
    search goes on to exhaustion),
  * per leaf: one concrete model of the inputs (path witness), re-run natively
    (no tracing, no stubs) through the same harness function; any disagreement
    between the symbolic and native outcome is an engine-fidelity error,
  * solver accounting (queries, seconds, decision sites inside dateutil).

A harness is a plain function `fn(ctx, **symbolic_args) -> outcome` closed over
its concrete cell parameters.  `ctx.assume(c)` prunes, `ctx.check(c, msg, key=)`
asserts.  The same function is executed symbolically and natively.
"""
import ast
import contextlib
import hashlib
import inspect
import json
import os
import sys
import time
import traceback

REPO_SRC = os.environ.get("VERIF_REPO_SRC", "/repo/src")
if REPO_SRC not in sys.path:
    sys.path.insert(0, REPO_SRC)

EXIT_OK, EXIT_VIOLATION, EXIT_ENGINE = 0, 1, 3


class Violation(Exception):
    def __init__(self, msg, key=None, **info):
        Exception.__init__(self, msg)
        self.msg = msg
        self.key = key
        self.info = info


class AssumeFailed(Exception):
    pass


class Ctx:
    """Handed to every harness.  symbolic=True under the tracer."""

    def __init__(self, symbolic):
        self.symbolic = symbolic
        self.reached = 0          # number of check() calls that were evaluated

    def assume(self, cond):
        if not cond:
            if self.symbolic:
                from crosshair.util import IgnoreAttempt
                raise IgnoreAttempt("assume")
            raise AssumeFailed()

    def check(self, cond, msg, key=None, **info):
        self.reached += 1
        if not cond:
            raise Violation(msg, key=key, **info)

    def concrete(self, v):
        """Pin a symbolic value to a concrete one (the solver enumerates its values over paths)."""
        if self.symbolic:
            from crosshair.core import realize
            return realize(v)
        return v

    def split(self, value, candidates):
        """Case-split on a small-range symbolic value (a deliberate fork that hands the solver a concrete
        residue, e.g. the weekday of 1 January); returns the value."""
        if self.symbolic:
            for k in candidates:
                if value == k:
                    return k
        return value

    def peek(self, v):
        """A value of `v` consistent with the current path condition, WITHOUT constraining the path (no tree
        node is created): used to pick a representative of the path's equivalence class."""
        if not self.symbolic or not hasattr(v, "var"):
            return v
        from crosshair.statespace import context_statespace
        from crosshair.tracers import NoTracing
        import z3
        with NoTracing():
            space = context_statespace()
            if space.solver.check() != z3.sat:
                from crosshair.util import UnknownSatisfiability
                raise UnknownSatisfiability("peek")
            val = space.solver.model().evaluate(v.var, model_completion=True)
            if z3.is_int_value(val):
                return val.as_long()
            return z3.is_true(val)

    def untraced(self):
        """Run a block on real (un-modelled) objects: only for code whose inputs are all concrete."""
        if self.symbolic:
            from crosshair.tracers import NoTracing
            return NoTracing()
        return contextlib.nullcontext()

    def lemma(self, fact):
        """Hand the solver a fact that is VALID (proved separately, see sym.prove_calendar_lemmas): adding a
        theorem to the path condition prunes nothing.  Natively it is simply asserted."""
        if self.symbolic:
            from crosshair.statespace import context_statespace
            from crosshair.tracers import NoTracing
            with NoTracing():
                context_statespace().add(fact.var if hasattr(fact, "var") else fact)
        else:
            assert fact, "lemma violated natively"

    def split_within(self, value, candidates):
        """Like split(), but paths where the value is none of the candidates are pruned (a stated bound)."""
        if self.symbolic:
            for k in candidates:
                if value == k:
                    return k
            from crosshair.util import IgnoreAttempt
            raise IgnoreAttempt("assume")
        if value not in candidates:
            raise AssumeFailed()
        return value

    def fail(self, msg, key=None, **info):
        self.reached += 1
        raise Violation(msg, key=key, **info)


# ---------------------------------------------------------------------------
# JSON encoding of concrete witnesses

def enc(v):
    import datetime as _dt
    if isinstance(v, bool) or v is None or isinstance(v, (int, str, float)):
        return v
    if isinstance(v, (bytes, bytearray)):
        return {"__bytes__": bytes(v).hex()}
    if isinstance(v, (list, tuple)):
        return {"__tuple__" if isinstance(v, tuple) else "__list__": [enc(x) for x in v]}
    if isinstance(v, dict):
        if all(isinstance(k, str) and not k.startswith("__") for k in v):
            return {k: enc(x) for k, x in v.items()}
        return {"__dict__": [[enc(k), enc(x)] for k, x in v.items()]}
    if isinstance(v, _dt.datetime):
        return {"__repr__": repr(v)}
    return {"__repr__": repr(v)}


def dec(v):
    if isinstance(v, dict):
        if "__bytes__" in v:
            return bytes.fromhex(v["__bytes__"])
        if "__tuple__" in v:
            return tuple(dec(x) for x in v["__tuple__"])
        if "__list__" in v:
            return [dec(x) for x in v["__list__"]]
        if "__dict__" in v:
            return {dec(k): dec(x) for k, x in v["__dict__"]}
        if "__repr__" in v:
            return v["__repr__"]
        return {k: dec(x) for k, x in v.items()}
    return v


# ---------------------------------------------------------------------------
# solver accounting

class SolverStats:
    def __init__(self):
        self.queries = 0
        self.seconds = 0.0
        self.unknown = 0


_STATS = SolverStats()
_PARTIAL = {}
SMT_TIMEOUT_S = 15.0        # set per exploration (per_path_s / 2)
_INSTALLED = False


def _install_accounting():
    global _INSTALLED
    if _INSTALLED:
        return
    _INSTALLED = True
    import z3
    from crosshair import statespace as ss
    orig = ss.solver_is_sat

    # z3's `timeout` is wall-clock and soft: one hard query can overrun it by an hour.  A watchdog thread interrupts
    # the solver context when a single check has run for 3x its timeout + 10 s; the check then comes back `unknown`.
    import threading
    cur = dict(t0=None, limit=None)      # no z3 object may be referenced from the watchdog thread

    def watchdog():
        while True:
            time.sleep(0.5)
            t0, lim = cur["t0"], cur["limit"]
            if t0 is not None and time.perf_counter() - t0 > lim:
                # The cell cannot continue past a
                # wedged solver call: hand what was explored so far to the parent, marked inconclusive, and exit.
                conn, cell, res = _PARTIAL.get("conn"), _PARTIAL.get("cell"), _PARTIAL.get("res")
                if conn is not None and cell is not None:
                    try:
                        out = dict(res) if res else _stalled(cell, "")
                        out["exhausted"] = False
                        out["unknown"] = out.get("unknown", 0) + 1
                        out.setdefault("unknown_where", [])
                        out["unknown_where"] = ["solver call still running after %.0fs (soft timeout %.0fs): cell abandoned"
                                                % (time.perf_counter() - t0, SMT_TIMEOUT_S)] + list(out["unknown_where"])[:3]
                        out["sites"] = sorted(_PARTIAL.get("sites") or ())
                        out.setdefault("queries", _STATS.queries)
                        out.setdefault("solver_s", round(_STATS.seconds, 2))
                        out.setdefault("cpu_s", round(time.process_time(), 1))
                        out["cell"] = dict(module=cell.module, factory=cell.factory, params=enc(cell.params))
                        out["twin_refuted"] = True if out.get("witnesses", 0) or out.get("violations") else None
                        conn.send(out)
                        conn.close()
                    finally:
                        os._exit(0)
                cur["t0"] = None
    threading.Thread(target=watchdog, daemon=True).start()

    def counted(solver, *exprs):
        t0 = time.perf_counter()
        cur["limit"] = 3.0 * SMT_TIMEOUT_S + 10.0
        cur["t0"] = t0
        try:
            return orig(solver, *exprs)
        except ss.UnknownSatisfiability:
            _STATS.unknown += 1
            dump = os.environ.get("VERIF_DUMP_UNKNOWN")
            if dump:
                with open(os.path.join(dump, "unknown_%d_%d.smt2" % (os.getpid(), _STATS.unknown)), "w") as f:
                    f.write(solver.sexpr())
                    for e in exprs:
                        f.write("\n(assert %s)" % e.sexpr())
                    f.write("\n(check-sat)\n")
            raise
        finally:
            cur["t0"] = None
            _STATS.queries += 1
            _STATS.seconds += time.perf_counter() - t0

    ss.solver_is_sat = counted


def _site_table():
    """file -> sorted [(start, end, qualname)] from the CURRENT source."""
    table = {}
    root = os.path.join(REPO_SRC, "dateutil")
    for dp, _dn, fns in os.walk(root):
        for fn in fns:
            if not fn.endswith(".py"):
                continue
            p = os.path.join(dp, fn)
            try:
                tree = ast.parse(open(p, encoding="utf-8").read())
            except Exception:
                continue
            spans = []

            def visit(node, prefix):
                for ch in ast.iter_child_nodes(node):
                    if isinstance(ch, (ast.FunctionDef, ast.ClassDef)):
                        q = prefix + ch.name
                        if isinstance(ch, ast.FunctionDef):
                            spans.append((ch.lineno, ch.end_lineno, q))
                        visit(ch, q + ".")
            visit(tree, "")
            table[p] = spans
    return table


def sites_to_functions(sites):
    table = _site_table()
    out = set()
    for s in sites:
        f, _, ln = s.rpartition(":")
        try:
            ln = int(ln)
        except ValueError:
            continue
        best = None
        for (a, b, q) in table.get(f, ()):  # innermost span
            if a <= ln <= b and (best is None or a >= best[0]):
                best = (a, b, q)
        rel = os.path.relpath(f, REPO_SRC)
        out.add(rel + ":" + (best[2] if best else "<module>"))
    return sorted(out)


def source_hashes(files=None):
    root = os.path.join(REPO_SRC, "dateutil")
    res = {}
    for dp, _dn, fns in os.walk(root):
        for fn in sorted(fns):
            if fn.endswith(".py"):
                p = os.path.join(dp, fn)
                rel = os.path.relpath(p, REPO_SRC)
                if files is None or rel in files:
                    res[rel] = hashlib.sha256(open(p, "rb").read()).hexdigest()[:16]
    return res


# ---------------------------------------------------------------------------

def _escaped(e):
    """An exception that reaches the harness natively from inside the code under test (innermost frame in the repository
    source) is an outcome the harness does not allow for: every harness catches the exceptions its property permits.
    It is reported as a violation (it replays by construction), not as an engine error."""
    tb = traceback.extract_tb(e.__traceback__)
    if not tb:
        return None
    last = tb[-1]
    if not last.filename.startswith(REPO_SRC):
        return None
    rel = os.path.relpath(last.filename, REPO_SRC)
    return Violation("the code under test raised %s (%s) in %s:%s, which the property does not allow here"
                     % (type(e).__name__, str(e)[:120], rel, last.name),
                     key="escaped-exception:%s:%s:%s" % (type(e).__name__, rel, last.name))


def _make_args(types, space, sig, gen_args):
    """Symbolic arguments.  int/bool are created directly as plain solver variables: CrossHair's own int
    factory adds a 'premature realisation' ParallelNode whose probability grows with every UNKNOWN leaf,
    which turns an exhaustive search into value enumeration."""
    from crosshair.libimpl import builtinslib as bl
    from crosshair.core import proxy_for_type
    out = {}
    for n, t in types.items():
        if t is int:
            out[n] = bl.SymbolicInt(n + space.uniq())
        elif t is bool:
            out[n] = bl.SymbolicBool(n + space.uniq())
        else:
            out[n] = proxy_for_type(t, n + space.uniq(), allow_subtypes=False)
    return out


def explore(fn, types, *, budget_s=60.0, per_path_s=10.0, stubs=None,
            max_violations=20, native=True, max_paths=None, name="?",
            twin=False):
    """Explore every path of fn(ctx, **args) with args symbolic of `types`.

    Returns a dict: exhausted, paths, confirmed, unknown, ignored, violations
    (list of dicts with concrete args), errors (engine-fidelity problems),
    queries, solver_s, sites, witnesses, samples.
    """
    _install_accounting()
    from crosshair.core import (Patched, deep_realize, gen_args, realize)
    from crosshair.core_and_libs import NoTracing, ResumedTracing, standalone_statespace  # noqa
    from crosshair.condition_parser import condition_parser
    from crosshair.options import AnalysisKind
    from crosshair.statespace import (CallAnalysis, RootNode, StateSpace,
                                      StateSpaceContext, VerificationStatus)
    from crosshair.tracers import COMPOSITE_TRACER
    from crosshair.util import (IgnoreAttempt, UnexploredPath, NotDeterministic,
                                CrossHairInternal)

    params = [inspect.Parameter(n, inspect.Parameter.KEYWORD_ONLY, annotation=t)
              for n, t in types.items()]
    sig = inspect.Signature(params)
    root = RootNode()
    q0, s0, u0 = _STATS.queries, _STATS.seconds, _STATS.unknown
    res = dict(name=name, exhausted=False, paths=0, confirmed=0, unknown=0,
               ignored=0, violations=[], errors=[], witnesses=0, reached=0,
               samples=[], unknown_where=[], decisions=0)
    sites = set()
    if not twin:
        _PARTIAL["res"] = res
        _PARTIAL["sites"] = sites
    global SMT_TIMEOUT_S
    SMT_TIMEOUT_S = per_path_s / 2
    t_start = time.process_time()
    w_start = time.time()
    stub_cm = stubs if stubs is not None else contextlib.nullcontext
    seen_viol = set()

    while True:
        now = time.process_time()
        if now - t_start > budget_s:
            break
        if max_paths is not None and res["paths"] >= max_paths:
            break
        space = StateSpace(execution_deadline=now + per_path_s,
                           model_check_timeout=per_path_s / 2,
                           search_root=root)
        status = None
        leaf = None      # ("ok", args, outcome) | ("viol", args, Violation) | ("exc", args, exc)
        ctx = Ctx(True)
        with condition_parser([AnalysisKind.PEP316]), Patched(), COMPOSITE_TRACER, \
                NoTracing(), StateSpaceContext(space):
            try:
                kwargs = _make_args(types, space, sig, gen_args)
                try:
                    with stub_cm():
                        with ResumedTracing():
                            try:
                                out = fn(ctx, **kwargs)
                                if twin:
                                    raise Violation("twin: end of harness reached")
                                space.detach_path()
                                leaf = ("ok", deep_realize(kwargs), deep_realize(out))
                            except Violation as v:
                                space.detach_path()
                                v.info = deep_realize(v.info)
                                v.key = deep_realize(v.key)
                                leaf = ("viol", deep_realize(kwargs), v)
                    status = VerificationStatus.CONFIRMED
                except IgnoreAttempt as e:
                    status = None
                    res["ignored"] += 1
                    if str(e) != "assume" and len(res["unknown_where"]) < 5:
                        fr = [f for f in traceback.extract_tb(e.__traceback__) if "/engine/" not in f.filename]
                        res["unknown_where"].append("IgnoreAttempt: " + str(e)[:100] + " @ " +
                                                    " < ".join("%s:%d" % (os.path.basename(f.filename), f.lineno) for f in fr[-4:]))
                except UnexploredPath as e:
                    status = VerificationStatus.UNKNOWN
                    res["unknown"] += 1
                    if len(res["unknown_where"]) < 5:
                        fr = [f for f in traceback.extract_tb(e.__traceback__)
                              if "/crosshair/" not in f.filename and "/engine/" not in f.filename]
                        res["unknown_where"].append(type(e).__name__ + ": " + str(e)[:100] + " @ " +
                                                    " < ".join("%s:%d" % (os.path.basename(f.filename), f.lineno) for f in fr[-4:]))
                except NotDeterministic as e:
                    status = VerificationStatus.UNKNOWN
                    res["unknown"] += 1
                    if len(res["unknown_where"]) < 5:
                        res["unknown_where"].append("NotDeterministic " + str(e)[:200])
                except Exception as e:  # harness or code-under-test raised something unexpected
                    tb = traceback.format_exc(limit=-6)
                    try:
                        with ResumedTracing():
                            space.detach_path()
                            cargs = deep_realize(kwargs)
                        leaf = ("exc", cargs, (type(e).__name__, str(e)[:300], tb))
                        status = VerificationStatus.CONFIRMED
                    except BaseException as e2:  # could not realise
                        res["errors"].append(dict(kind="exception-unrealisable",
                                                  exc=type(e).__name__, msg=str(e)[:300], tb=tb,
                                                  second=type(e2).__name__))
                        status = VerificationStatus.UNKNOWN
                        res["unknown"] += 1
            except IgnoreAttempt:
                status = None
                res["ignored"] += 1
            except UnexploredPath as e:
                status = VerificationStatus.UNKNOWN
                res["unknown"] += 1
                if len(res["unknown_where"]) < 5:
                    res["unknown_where"].append("outer " + type(e).__name__ + ": " + str(e)[:200])
            for node in space.choices_made:
                st = getattr(node, "stacktail", None)
                if st:
                    res["decisions"] += 1
                    for fr in st:
                        if fr.startswith(REPO_SRC):
                            sites.add(fr)
                            break
            _a, exhausted = space.bubble_status(CallAnalysis(status))
        res["paths"] += 1
        if status == VerificationStatus.CONFIRMED:
            res["confirmed"] += 1
        res["reached"] += ctx.reached

        # ---- native replay of the path witness (outside every CrossHair context)
        if leaf is not None:
            kind, cargs, payload = leaf
            if native:
                nctx = Ctx(False)
                try:
                    nout = fn(nctx, **cargs)
                    nres = ("ok", nout)
                except Violation as v:
                    nres = ("viol", v)
                except AssumeFailed:
                    nres = ("assume", None)
                except Exception as e:
                    esc = _escaped(e)
                    if esc is not None:
                        nres = ("viol", esc)
                    else:
                        nres = ("exc", (type(e).__name__, str(e)[:300], traceback.format_exc(limit=-6)))
            else:
                nres = (kind, payload)
            if nres[0] == "viol":
                v = nres[1]
                rec = dict(args=enc(cargs), msg=v.msg, key=v.key, info=enc(v.info),
                           symbolic_kind=kind)
                k = (v.key, v.msg) if v.key is not None else json.dumps(rec["args"], sort_keys=True)
                if k not in seen_viol:
                    seen_viol.add(k)
                    res["violations"].append(rec)
                else:
                    res["dup_violations"] = res.get("dup_violations", 0) + 1
                if kind != "viol":
                    # native shows a violation the symbolic run did not see: still a real
                    # violation (it replays), but the encoding missed it -- note it.
                    rec["note"] = "found by native witness replay; symbolic outcome was %s" % kind
            elif kind == "viol":
                res["errors"].append(dict(kind="non-reproducing-counterexample", args=enc(cargs),
                                          msg=payload.msg, native=str(nres[0]),
                                          detail=enc(nres[1]) if nres[0] != "ok" else enc(nres[1])))
            elif kind == "exc" or nres[0] == "exc":
                res["errors"].append(dict(kind="harness-exception", args=enc(cargs),
                                          symbolic=enc(payload) if kind == "exc" else kind,
                                          native=enc(nres[1]) if nres[0] == "exc" else nres[0]))
            elif nres[0] == "assume":
                res["errors"].append(dict(kind="witness-violates-assume", args=enc(cargs)))
            else:
                if nres[1] != payload:
                    res["errors"].append(dict(kind="witness-disagreement", args=enc(cargs),
                                              symbolic=enc(payload), native=enc(nres[1])))
                else:
                    res["witnesses"] += 1
                    if len(res["samples"]) < 3:
                        res["samples"].append(dict(args=enc(cargs), outcome=enc(payload)))
        if exhausted:
            res["exhausted"] = True
            break
        if len(res["violations"]) >= max_violations or len(res["errors"]) >= 10:
            break
        if res.get("dup_violations", 0) >= 150:      # the same finding over and over: the cell is refuted, stop
            break
    res["queries"] = _STATS.queries - q0
    res["solver_s"] = round(_STATS.seconds - s0, 3)
    res["cpu_s"] = round(time.process_time() - t_start, 2)
    res["wall_s"] = round(time.time() - w_start, 2)
    res["sites"] = sorted(sites)
    return res


# ---------------------------------------------------------------------------
# cells over worker processes

class Cell:
    """One concrete configuration: `module:factory(**params)` returns
    (fn, types, stubs_or_None).  Everything here must be picklable."""

    def __init__(self, module, factory, params, name=None, budget_s=60.0,
                 per_path_s=10.0, twin=True, max_violations=20):
        self.module = module
        self.factory = factory
        self.params = params
        self.name = name or "%s(%s)" % (factory, ",".join("%s=%r" % kv for kv in sorted(params.items())))
        self.budget_s = budget_s
        self.per_path_s = per_path_s
        self.twin = twin
        self.max_violations = max_violations

    def build(self):
        import importlib
        mod = importlib.import_module(self.module)
        r = getattr(mod, self.factory)(**self.params)
        if len(r) == 2:
            return r[0], r[1], None
        return r


def _run_cell(cell):
    try:
        fn, types, stubs = cell.build()
        out = explore(fn, types, budget_s=cell.budget_s, per_path_s=cell.per_path_s,
                      stubs=stubs, name=cell.name, max_violations=cell.max_violations)
        out["cell"] = dict(module=cell.module, factory=cell.factory, params=enc(cell.params))
        if cell.twin:
            # anti-vacuity: the end of the harness must be reachable.  A leaf that ran to the end (and whose witness
            # was replayed natively) already shows that; the reachability twin is only needed when there is none.
            if out.get("witnesses", 0) > 0 or out.get("violations"):
                out["twin_refuted"] = True
                out["twin_paths"] = 0
            else:
                tw = explore(fn, types, budget_s=min(60.0, cell.budget_s), per_path_s=cell.per_path_s,
                             stubs=stubs, name=cell.name + "#twin", max_violations=1,
                             native=False, twin=True, max_paths=400)
                out["twin_refuted"] = bool(tw["violations"])
                out["twin_paths"] = tw["paths"]
        return out
    except BaseException as e:  # noqa
        return dict(name=cell.name, fatal=type(e).__name__ + ": " + str(e)[:500],
                    tb=traceback.format_exc(limit=-8),
                    cell=dict(module=cell.module, factory=cell.factory, params=enc(cell.params)),
                    exhausted=False, paths=0, confirmed=0, unknown=0, ignored=0, violations=[],
                    errors=[dict(kind="fatal", msg=str(e)[:500])], witnesses=0, reached=0,
                    samples=[], queries=0, solver_s=0.0, sites=[], decisions=0, cpu_s=0, wall_s=0)


def _stalled(cell, why):
    return dict(name=cell.name, cell=dict(module=cell.module, factory=cell.factory, params=enc(cell.params)),
                exhausted=False, paths=0, confirmed=0, unknown=1, ignored=0, violations=[], errors=[],
                witnesses=0, reached=0, samples=[], queries=0, solver_s=0.0, sites=[], decisions=0, cpu_s=0, wall_s=0,
                unknown_where=[why])


def _child(cell, conn):
    _PARTIAL["conn"] = conn
    _PARTIAL["cell"] = cell
    try:
        conn.send(_run_cell(cell))
    finally:
        conn.close()


def run_cells(cells, jobs=16):
    """One forked process per cell, at most `jobs` at a time, longest budget first.  A worker that outlives its hard
    deadline (a solver call that ignores every timeout) is killed and its cell is reported inconclusive."""
    import multiprocessing as mp
    from multiprocessing.connection import wait
    if not cells:
        return []
    jobs = max(1, min(jobs, len(cells)))
    if jobs == 1 and os.environ.get("VERIF_INPROC"):
        return [_run_cell(c) for c in cells]
    ctx = mp.get_context("fork")
    order = sorted(range(len(cells)), key=lambda i: -cells[i].budget_s)
    res = [None] * len(cells)
    running = {}          # conn -> (index, process, deadline)
    pending = list(order)
    while pending or running:
        while pending and len(running) < jobs:
            i = pending.pop(0)
            c = cells[i]
            rd, wr = ctx.Pipe(duplex=False)
            p = ctx.Process(target=_child, args=(c, wr), daemon=True)
            p.start()
            wr.close()
            hard = 3.0 * c.budget_s + 6.0 * c.per_path_s + 300.0
            running[rd] = (i, p, time.time() + hard)
        ready = wait(list(running), timeout=1.0)
        for rd in ready:
            i, p, _dl = running.pop(rd)
            try:
                res[i] = rd.recv()
            except (EOFError, OSError):
                res[i] = _stalled(cells[i], "worker died without a result (exit code %r)" % (p.exitcode,))
            rd.close()
            p.join(5)
        now = time.time()
        for rd, (i, p, dl) in list(running.items()):
            if now > dl:
                running.pop(rd)
                p.kill()
                p.join(5)
                rd.close()
                res[i] = _stalled(cells[i], "worker killed at its hard deadline: a solver call ignored its timeout")
    return res


def replay_cell_violation(rec):
    """Re-run a recorded violation natively.  rec: dict(cell=..., args=...)."""
    c = rec["cell"]
    cell = Cell(c["module"], c["factory"], dec(c["params"]))
    fn, _types, _stubs = cell.build()
    try:
        fn(Ctx(False), **dec(rec["args"]))
    except Violation as v:
        return v
    except Exception as e:
        return _escaped(e)
    return None
