"""Shared machinery for C04/C05/C06 on tzfile zones: independent TZif reader, zone enumeration, harnesses."""
import hashlib
import os
import struct

from engine import chx, tsdt
from engine import sym as S

ZONEINFO = "/usr/share/zoneinfo"


def read_tzif_v1(data):
    """Independent reading of the version-1 block: returns dict(trans=[...], idx=[...], types=[(utoff,isdst,abbr)...])."""
    if data[:4] != b"TZif":
        raise ValueError("not TZif")
    (isgmtcnt, isstdcnt, leapcnt, timecnt, typecnt, charcnt) = struct.unpack(">6l", data[20:44])
    p = 44
    trans = list(struct.unpack(">%dl" % timecnt, data[p:p + 4 * timecnt])) if timecnt else []
    p += 4 * timecnt
    idx = list(data[p:p + timecnt])
    p += timecnt
    raw = []
    for _ in range(typecnt):
        raw.append(struct.unpack(">lbB", data[p:p + 6]))
        p += 6
    chars = data[p:p + charcnt]
    types = []
    for (off, isdst, ai) in raw:
        end = chars.find(b"\x00", ai)
        types.append((off, isdst, chars[ai:end].decode("ascii")))
    return dict(trans=trans, idx=idx, types=types)


def first_standard_type(t):
    for i, (off, isdst, ab) in enumerate(t["types"]):
        if not isdst:
            return i
    return 0


def distinct_zone_files():
    """[(name, path)] one per distinct file content, sorted by name; names relative to ZONEINFO."""
    seen = {}
    out = []
    for dp, dn, fns in os.walk(ZONEINFO):
        dn.sort()
        rel = os.path.relpath(dp, ZONEINFO)
        if rel.split(os.sep)[0] in ("posix", "right"):
            continue
        for fn in sorted(fns):
            p = os.path.join(dp, fn)
            if os.path.islink(p) and not os.path.exists(p):
                continue
            try:
                with open(p, "rb") as f:
                    data = f.read()
            except OSError:
                continue
            if data[:4] != b"TZif":
                continue
            h = hashlib.sha1(data).hexdigest()
            name = os.path.normpath(os.path.join(rel, fn))
            if h in seen:
                continue
            seen[h] = name
            out.append((name, p))
    out.sort()
    return out


AWKWARD = ["America/Adak", "Europe/Dublin", "Africa/Casablanca", "Pacific/Kiritimati", "Africa/Monrovia", "America/Sao_Paulo",
           "Asia/Kathmandu", "Australia/Lord_Howe", "America/New_York", "Europe/London", "Pacific/Apia",
           "Antarctica/Troll", "Asia/Pyongyang", "America/Caracas", "Europe/Lisbon", "UTC", "Asia/Tokyo"]


def zone_list(tier, seed):
    import random
    allz = distinct_zone_files()
    names = {n: p for n, p in allz}
    if tier == "thorough":
        return allz
    rnd = random.Random(seed)
    pick = [n for n in AWKWARD if n in names]
    rest = [n for n, _ in allz if n not in pick]
    rnd.shuffle(rest)
    pick += rest[:8]
    return [(n, names[n]) for n in pick]


# ---------------------------------------------------------------------------

def _load(path):
    from dateutil import tz
    with open(path, "rb") as f:
        data = f.read()
    return tz.tzfile(path), read_tzif_v1(data)


def _interval(u, trans):
    """Index i of the last transition <= u (or -1), by binary search with (symbolic) comparisons."""
    lo, hi = 0, len(trans)
    while lo < hi:
        mid = (lo + hi) // 2
        if u < trans[mid]:
            hi = mid
        else:
            lo = mid + 1
    return lo - 1


def _type_at(t, i):
    if i < 0:
        return t["types"][first_standard_type(t)]
    return t["types"][t["idx"][i]]


def _off_at_fn(t):
    """u -> utoff as one ITE chain (fork-free) over the data's intervals."""
    trans, first = t["trans"], t["types"][first_standard_type(t)][0]

    def f(u):
        r = first
        for i, tt in enumerate(trans):
            r = S.ite(S.le(tt, u), t["types"][t["idx"][i]][0], r)
        return r
    return f


def span(t):
    if t["trans"]:
        return t["trans"][0] - 10 ** 6, t["trans"][-1] + 10 ** 6
    return -10 ** 6, 10 ** 6


def h_utc(name, path, clauses):
    """One symbolic UTC instant u over the whole table: conversion round trip (C04) and/or agreement with the
    data (C06)."""
    from dateutil import tz
    z, t = _load(path)
    lo, hi = span(t)
    UTC = tz.UTC
    types = dict(u=int)

    import copy
    z0 = z

    def fn(ctx, u):
        ctx.assume(S.within(u, lo, hi))
        z = copy.copy(z0)            # per-path object: state a zone might keep between queries must not leak across paths
        if "c06" in clauses:
            # history: a wall-clock query with the SAME number first -- answers must not depend on earlier queries
            tsdt.mk(ctx, u, z).utcoffset()
        dt = tsdt.mk(ctx, u, z)
        wall = z.fromutc(dt)
        w = tsdt.ts_of(wall)
        i = _interval(u, t["trans"])          # forks are forced: the code's own bisect already pinned the interval
        off = wall.utcoffset()
        if "c04" in clauses:
            ctx.check(S.eq(S.sub(w, u), tsdt.secs(off)), "utcoffset of the converted datetime != wall - UTC",
                      key="%s:%d:offset" % (name, i), zone=name)
            back = wall.astimezone(UTC)
            ctx.check(S.eq(tsdt.ts_of(back), u), "local -> UTC does not return the original instant",
                      key="%s:%d:roundtrip" % (name, i), zone=name)
        if "c06" in clauses:
            eoff, eisdst, eabbr = _type_at(t, i)
            inside = i >= 0 or not t["trans"]
            if inside or "c06before" in clauses:
                ctx.check(S.eq(S.sub(w, u), eoff), "wall - UTC is not the offset the data assigns to this interval",
                          key="%s:%d:data-offset" % (name, i), zone=name)
                ctx.check(wall.tzname() == eabbr, "abbreviation differs from the data",
                          key="%s:%d:data-abbr" % (name, i), zone=name)
                ctx.check(S.eq(tsdt.secs(off), eoff), "reported utcoffset differs from the data",
                          key="%s:%d:data-utcoffset" % (name, i), zone=name)
                if not eisdst:
                    ctx.check(tsdt.secs(wall.dst()) == 0, "non-zero dst() where the data marks standard time",
                              key="%s:%d:data-dst" % (name, i), zone=name)
        if ("c06" in clauses or "c04" in clauses):
            if not ctx.symbolic and i >= 0:
                # sub-second instants (native, real datetimes): the last microsecond before the transition that opens this
                # interval belongs to the previous interval, like the whole second before it
                import datetime as _d
                T = t["trans"][i]
                ep = _d.datetime(1970, 1, 1)

                def ans(d):
                    w2 = z.fromutc(d.replace(tzinfo=z))
                    return (w2.utcoffset(), w2.tzname(), w2.dst(), w2.replace(tzinfo=None) - d)
                a = ans(ep + _d.timedelta(seconds=T - 1))
                b = ans(ep + _d.timedelta(seconds=T - 1, microseconds=999999))
                c = ans(ep + _d.timedelta(seconds=T, microseconds=1))
                d0 = ans(ep + _d.timedelta(seconds=T))
                ctx.check(a == b, "the instant one microsecond before a transition is answered %r, the whole second before it %r" % (b[:2], a[:2]),
                          key="%s:%d:subsecond-before" % (name, i), zone=name)
                ctx.check(c == d0, "the instant one microsecond after a transition is answered %r, the transition instant itself %r" % (c[:2], d0[:2]),
                          key="%s:%d:subsecond-after" % (name, i), zone=name)
        return int(i)
    return fn, types


def h_wall(name, path):
    """One symbolic naive wall time w: existence / ambiguity / fold semantics / resolve_imaginary (C05) against the
    pre-image count computed from the data."""
    from dateutil import tz
    z, t = _load(path)
    lo, hi = span(t)
    offat = _off_at_fn(t)
    trans = t["trans"]
    offs = sorted({ty[0] for ty in t["types"]})
    types = dict(w=int)

    def preimages(w):
        # u = w - off is a pre-image iff the data's offset at u is off
        cnt = 0
        terms = []
        for off in offs:
            u = S.sub(w, off)
            ok = S.and_(S.eq(offat(u), off))
            terms.append((off, ok))
        return terms

    import copy
    z0 = z

    def fn(ctx, w):
        ctx.assume(S.within(w, lo + 200000, hi - 200000))
        z = copy.copy(z0)
        naive = tsdt.mk(ctx, w)
        pre = preimages(w)
        count = S.add(*[S.b2i(ok) for (_o, ok) in pre]) if pre else 0
        # finding keys name the transition the wall time is nearest to; only needed in the native replay
        # (the zone's own wall-time bisect result: pinned by the path, so the key is the same for every witness of it)
        i = 0
        if not ctx.symbolic:
            i = z._find_last_transition(naive)
            i = -1 if i is None else i
        ex = tz.datetime_exists(naive, z)
        ctx.check(S.eq(bool(ex), S.le(1, count)), "datetime_exists disagrees with the number of UTC pre-images",
                  key="%s:~%d:exists" % (name, i), zone=name)
        amb = tz.datetime_ambiguous(naive, z)
        ctx.check(S.eq(bool(amb), S.le(2, count)), "datetime_ambiguous disagrees with the number of UTC pre-images",
                  key="%s:~%d:ambiguous" % (name, i), zone=name)
        a0 = tsdt.mk(ctx, w, z, 0)
        a1 = tsdt.mk(ctx, w, z, 1)
        o0, o1 = tsdt.secs(a0.utcoffset()), tsdt.secs(a1.utcoffset())
        if S.le(2, count):
            # fold=0 is the earlier instant (larger offset), fold=1 the later; both must be genuine pre-images
            ctx.check(S.and_(S.lt(o1, o0), S.eq(offat(S.sub(w, o0)), o0), S.eq(offat(S.sub(w, o1)), o1)),
                      "fold=0 / fold=1 do not denote the earlier / later of the two instants",
                      key="%s:~%d:fold-order" % (name, i), zone=name)
            f0 = z.fromutc(tsdt.mk(ctx, S.sub(w, o0), z))
            f1 = z.fromutc(tsdt.mk(ctx, S.sub(w, o1), z))
            ctx.check(S.and_(S.eq(f0.fold, 0), S.eq(f1.fold, 1), S.eq(tsdt.ts_of(f0), w), S.eq(tsdt.ts_of(f1), w)),
                      "conversion from UTC does not set fold to 0 / 1 for the two instants of a repeated wall time",
                      key="%s:~%d:fromutc-fold" % (name, i), zone=name)
        elif S.eq(count, 1):
            ctx.check(S.and_(S.eq(o0, o1), S.eq(offat(S.sub(w, o0)), o0)),
                      "fold changes the offset of an unambiguous wall time (or the offset is not the one in force)",
                      key="%s:~%d:fold-noeffect" % (name, i), zone=name)
        aware = tsdt.mk(ctx, w, z)
        res = tz.resolve_imaginary(aware)
        rw = tsdt.ts_of(res)
        if S.le(1, count):
            ctx.check(S.eq(rw, w), "resolve_imaginary changed an existing wall time", key="%s:~%d:resolve-exists" % (name, i), zone=name)
        else:
            # moved forward by the width of the gap, and the result exists
            rcount = S.add(*[S.b2i(S.eq(offat(S.sub(rw, off)), off)) for off in offs])
            width = 0
            prev = t["types"][first_standard_type(t)][0]
            terms = []
            for k, tt in enumerate(trans):
                new = t["types"][t["idx"][k]][0]
                if new > prev:
                    terms.append(S.ite(S.and_(S.le(tt + prev, w), S.lt(w, tt + new)), new - prev, 0))
                prev = new
            width = S.add(*terms) if terms else 0
            ctx.check(S.and_(S.le(1, rcount), S.eq(rw, S.add(w, width))),
                      "resolve_imaginary does not move an imaginary wall time forward by the width of the gap onto an existing one",
                      key="%s:~%d:resolve-gap" % (name, i), zone=name)
        return count
    return fn, types
