"""C07 isoparse inverts every ISO-8601 rendering (structured forms: symbolic digits, concrete layout)."""
import itertools

from engine import chx, report, stubs, sym
from engine import sym as S
from engine.chx import Cell

M = "harness.iso"
D = "D"
Q = "?"
REPR = [0, 1, 2, 3, 4, 5, 6, 8, 9, 10, 12, 16, 20, 24, 100, 399]   # year residues mod 400 for week-shaped inputs in the quick tier: every (leap, weekday of 1 Jan) class + century + last

DATES = {
    "YYYY": [D] * 4,
    "YYYY-MM": [D] * 4 + [45, D, D],
    "YYYY-MM-DD": [D] * 4 + [45, D, D, 45, D, D],
    "YYYYMMDD": [D] * 8,
    "YYYY-Www": [D] * 4 + [45, 87, D, D],
    "YYYYWww": [D] * 4 + [87, D, D],
    "YYYY-Www-D": [D] * 4 + [45, 87, D, D, 45, D],
    "YYYYWwwD": [D] * 4 + [87, D, D, D],
    "YYYY-DDD": [D] * 4 + [45, D, D, D],
    "YYYYDDD": [D] * 7,
}
FULL = ("YYYY-MM-DD", "YYYYMMDD", "YYYY-Www-D", "YYYYWwwD", "YYYY-DDD", "YYYYDDD")
TIMES = {
    "hh": [D, D],
    "hhmm": [D] * 4,
    "hh:mm": [D, D, 58, D, D],
    "hhmmss": [D] * 6,
    "hh:mm:ss": [D, D, 58, D, D, 58, D, D],
}
TZS = {
    "": [],
    "Z": [90],
    "z": [122],
    "+hh": [Q, D, D],
    "+hhmm": [Q, D, D, D, D],
    "+hh:mm": [Q, D, D, 58, D, D],
}


def frac(k, comma):
    return [44 if comma else 46] + [D] * k


def h_offset_history(entry):
    """Two parses in a row whose offsets are related (equal, negated, exactly 24 h apart, same minutes): the offset of
    each result is the one rendered, whatever was parsed before and whichever results are still alive.  Hours/minutes/sign
    and the relation are pinned per path by the solver; the check runs natively (the zone factory's real cache)."""
    import datetime
    from dateutil.parser import isoparser
    types = dict(h=int, m=int, neg=bool, rel=int, keep=bool)

    def render(off):
        sign = "-" if off < 0 else "+"
        a = abs(off)
        return "%s%02d:%02d" % (sign, a // 60, a % 60)

    def fn(ctx, h, m, neg, rel, keep):
        ctx.assume(S.within(h, 0, 23))
        ctx.assume(S.within(m, 0, 3))
        ctx.assume(S.within(rel, 0, 4))
        h, m, neg, rel, keep = ctx.concrete(h), ctx.concrete(m) * 15, ctx.concrete(neg), ctx.concrete(rel), ctx.concrete(keep)
        o1 = (-1 if neg else 1) * (h * 60 + m)
        o2 = [o1, -o1, o1 - 1440, o1 + 1440, o1 + 60][rel]
        if not (-1440 < o2 < 1440) or (rel >= 2 and o1 == 0 and False):
            ctx.assume(False)
        if ctx.symbolic:
            return None
        with ctx.untraced():
            p = isoparser()
            outs = []
            for off in (o1, o2, o1):
                if entry == "dt":
                    r = p.isoparse("2021-03-04T12:30:15" + render(off))
                    ok = r.replace(tzinfo=None) == datetime.datetime(2021, 3, 4, 12, 30, 15)
                elif entry == "time":
                    r = p.parse_isotime("12:30:15" + render(off))
                    ok = r.replace(tzinfo=None) == datetime.time(12, 30, 15)
                else:
                    r = datetime.datetime(2021, 3, 4, 12, 30, 15, tzinfo=p.parse_tzstr(render(off)))
                    ok = True
                if keep:
                    outs.append(r)
                ctx.check(ok, "wall time changed", key="history:%s:wall" % entry)
                ctx.check(r.utcoffset() == datetime.timedelta(minutes=off),
                          "after parsing offsets %s the text %s gives utcoffset %r" % ([render(o) for o in (o1, o2)], render(off), r.utcoffset()),
                          key="history:%s:offset" % entry)
            for r, off in zip(outs, (o1, o2, o1)):
                ctx.check(r.utcoffset() == datetime.timedelta(minutes=off), "an earlier result changed its offset", key="history:%s:later" % entry)
        return None
    return fn, types


def h_frac_small(entry):
    """Short fractions with EVERY digit value pinned per path (k = 1..3 digits, dot / comma): the scaling to microseconds is
    exact for every one- and two-digit string and a thinned set of three-digit ones.  (The symbolic fraction cells decide the digit arithmetic over integers; a
    scaling that goes through binary floating point is only visible on concrete values.)"""
    import datetime
    from dateutil.parser import isoparser
    types = dict(k=int, v=int, comma=bool)

    def fn(ctx, k, v, comma):
        ctx.assume(S.within(k, 1, 3))
        ctx.assume(S.within(v, 0, 999))
        k = ctx.concrete(k)
        ctx.assume(S.lt(v, 10 ** k))
        if k == 3:
            ctx.assume(S.eq(S.mod(v, 37), 1))        # three digits: a thinned set (27 values)
        v, comma = ctx.concrete(v), ctx.concrete(comma)
        if ctx.symbolic:
            return None
        with ctx.untraced():
            digits = "%0*d" % (k, v)
            want = int(digits.ljust(6, "0"))
            text = "06:14:30" + ("," if comma else ".") + digits
            p = isoparser()
            if entry == "time":
                got = p.parse_isotime(text)
                ok = got == datetime.time(6, 14, 30, want)
            elif entry == "bytes":
                got = p.isoparse(("2017-11-27T" + text + "+01:00").encode("ascii"))
                ok = got.replace(tzinfo=None) == datetime.datetime(2017, 11, 27, 6, 14, 30, want) and got.utcoffset() == datetime.timedelta(hours=1)
            else:
                got = p.isoparse("2017-11-27T" + text)
                ok = got == datetime.datetime(2017, 11, 27, 6, 14, 30, want)
            ctx.check(ok, "%s fraction %r parsed as %r, expected %d microseconds" % (entry, text, got, want), key="frac-small:%s" % entry)
        return None
    return fn, types


def cells(tier):
    q = tier == "quick"
    cs = []
    for entry in ("dt", "time", "bytes"):
        cs.append(Cell("harness.c07", "h_frac_small", dict(entry=entry), budget_s=120))
    for entry in ("dt", "time", "tz"):
        cs.append(Cell("harness.c07", "h_offset_history", dict(entry=entry), budget_s=120))

    def add(entry, name, tpl, budget, sep=None, week=False, via="bytes"):
        params = dict(entry=entry, tpl=tpl, mode="c07", sep=sep, via=via)
        if via != "bytes":
            name += "[%s]" % via
        if week and q:
            for r in REPR:     # one cell per year residue: they run in parallel
                cs.append(Cell(M, "h_iso", dict(params, year_residues=[r]), name="%s/%s[y%%400=%d]" % (entry, name, r),
                               budget_s=budget, per_path_s=40, max_violations=10))
            return
        cs.append(Cell(M, "h_iso", params, name="%s/%s" % (entry, name), budget_s=budget, per_path_s=40,
                       max_violations=10))

    wk = lambda n: "W" in n
    big = 1 if q else 3
    for n, t in DATES.items():
        add("date", n, t, 240 * big, week=wk(n))
        if not q:
            add("dt", n, t, 240 * big, week=wk(n))
    for n, t in TIMES.items():
        for tzn, tzt in (list(TZS.items()) if not q else [("", []), ("+hh:mm", TZS["+hh:mm"]), ("Z", [90])]):
            add("time", n + tzn, t + tzt, 120 * big)
    for base in ("hhmmss", "hh:mm:ss"):
        for k in ((1, 6, 9) if q else (1, 2, 3, 4, 5, 6, 7, 9, 12)):
            for comma in ((False,) if q and k != 6 else (False, True)):
                add("time", "%s%s%d" % (base, "," if comma else ".", k), TIMES[base] + frac(k, comma), 120 * big)
                if not q or k == 6:
                    add("time", "%s%s%d+hh:mm" % (base, "," if comma else ".", k),
                        TIMES[base] + frac(k, comma) + TZS["+hh:mm"], 150 * big)
    for n, t in TZS.items():
        if t:
            add("tz", n, t, 60)
    # full datetimes
    if q:
        combos = [("YYYY-MM-DD", "hh:mm:ss", 6, "+hh:mm", 84, None), ("YYYYMMDD", "hhmmss", 0, "Z", 84, "T"),
                  ("YYYY-MM-DD", "hh:mm", 0, "", 32, None), ("YYYY-DDD", "hh", 0, "+hh", Q, None),
                  ("YYYYWwwD", "hhmm", 0, "", 84, None), ("YYYY-MM-DD", "hh:mm:ss", 3, "", Q, None)]
    else:
        combos = []
        for dn in FULL:
            for tn in TIMES:
                for k in ((0, 3, 6, 9) if tn.endswith("ss") else (0,)):
                    for tzn in TZS:
                        for sepb, sep in ((84, None), (Q, None), (32, " ")):
                            combos.append((dn, tn, k, tzn, sepb, sep))
        combos = combos[::10]     # every 10th combination of the full product: the tier stays near an hour on 16 cores
    # the longest documented rendering, handed over as a stream (str / bytes / stream inputs must be equivalent)
    long_tpl = DATES["YYYY-MM-DD"] + [84] + TIMES["hh:mm:ss"] + frac(9, False) + TZS["+hh:mm"]
    add("dt", "YYYY-MM-DDThh:mm:ss.9+hh:mm", long_tpl, 300 * big, via="stream")
    add("time", "hh:mm:ss.9+hh:mm", TIMES["hh:mm:ss"] + frac(9, False) + TZS["+hh:mm"], 200 * big, via="stream")
    for (dn, tn, k, tzn, sepb, sep) in combos:
        tpl = DATES[dn] + [sepb] + TIMES[tn] + (frac(k, False) if k else []) + TZS[tzn]
        nm = "%s%s%s%s%s" % (dn, {84: "T", 32: "_", Q: "?"}[sepb], tn, (".%d" % k) if k else "", tzn)
        add("dt", nm + ("[sep=%r]" % sep if sep else ""), tpl, (300 if wk(dn) else 150) * big, sep=sep, week=wk(dn))
    return cs


ASSUMPTIONS = [
    "offset-history cells: two related offsets (equal / negated / 24 h apart / one hour apart, quarter-hour resolution) parsed in a row, pinned per path, run natively on the real zone factory",
    "input is bytes (str/stream paths only add .encode('ascii') / .read())",
    "builtin int as seen from dateutil.parser.isoparser = DFA model of CPython's int(bytes) (validated each run); "
    "bytes.isdigit / `in b'...'` on symbolic bytes = fork-free definitions",
    "tz.tzoffset as seen from isoparser bypasses the instance cache (tzoffset.instance) -- the cache is C18's subject",
    "CrossHair's datetime model with the calendar stubs of engine/stubs.py (forward-map year decomposition, leap terms as ITE); "
    "every path's witness is replayed on the real datetime natively",
    "lemma year_step (days_before_year(y+1) == days_before_year(y)+365+leap(y)) handed to the solver on week-date paths, proved separately each run",
    "quick tier: week-date forms are decided for years congruent mod 400 to one of %r; thorough: all years" % (REPR,),
    "sep=None cells with a free separator byte: a digit as separator is outside the inverse law (the reference then only demands correctness when accepted)",
]
OUTSIDE = ["str inputs (.encode('ascii') realises a symbolic str); stream inputs are covered for the two longest forms only", "fractions longer than the listed digit counts", "forms not in the cell list"]


def run(tier, seed, jobs):
    n, bad = stubs.validate_int_model(1, (2, 3))
    errs = [dict(kind="stub-validation", stub="int_of_bytes", sample=repr(b)) for b in bad[:5]]
    lem = sym.prove_calendar_lemmas()
    for (nm, verdict, _t) in lem:
        if verdict != "unsat":
            errs.append(dict(kind="lemma-not-proved", lemma=nm, verdict=verdict))
    cs = report.filter_cells(cells(tier))
    res = chx.run_cells(cs, jobs)
    return report.aggregate("C07", res, assumptions=ASSUMPTIONS, bounds=dict(cells=[c.name for c in cs]),
                            outside=OUTSIDE, stubs=["int_of_bytes", "bytes.isdigit", "bytes.__contains__", "tz shim", "calendar stubs"],
                            extra_errors=errs,
                            stub_validation=dict(int_of_bytes=dict(cases=n, mismatches=len(bad)), lemmas=lem))
