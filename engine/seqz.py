"""E3 `seqz` -- sequentialisation of lock-protected code for schedule properties.

A method is re-parsed from the CURRENT source and rewritten into a *step generator*:
  * `yield P` (a pre-emption point) is inserted before every statement of every block,
  * an original `yield X` becomes `yield ("item", X)`,
  * `lock.acquire()` statements and `with <lock>:` blocks become a try-acquire loop that yields B (blocked)
    while the model lock is held -- so a logical thread waiting for the mutex can be de-scheduled,
  * `return X` stays (the value travels in StopIteration.value).
The rewritten function is compiled inside a class of the same name (private-name mangling is preserved) and
in the globals of the original module.  Attribute loads/stores and calls into C (dict, list, WeakValueDictionary
methods) are atomic steps -- CPython's GIL granularity, stated as an assumption.

`run_schedule()` drives several such step generators under a schedule given as (thread, steps) segments and
reports deadlock (every unfinished thread blocked).
"""
import ast
import sys
import textwrap

P = ("preempt",)
B = ("blocked",)


class SeqError(Exception):
    pass


class Deadlock(Exception):
    pass


class ModelLock(object):
    """Mutex for logical threads.  acquire(False) never blocks; a blocking acquire on a held lock is only
    legal from un-rewritten code when no logical thread is suspended holding it."""

    def __init__(self):
        self.held = False
        self.errors = []

    def acquire(self, blocking=True, timeout=-1):
        if self.held:
            if not blocking:
                return False
            raise Deadlock("blocking acquire on a held model lock from un-rewritten code")
        self.held = True
        return True

    def release(self):
        if not self.held:
            self.errors.append("release of an unlocked lock")
            raise RuntimeError("release unlocked lock")
        self.held = False

    def locked(self):
        return self.held

    def __enter__(self):
        self.acquire()
        return self

    def __exit__(self, *a):
        self.release()


_RUNNING = {}


def _seqz_begin(gen):
    """Enter a shared iterator: CPython refuses re-entrancy of a running generator."""
    if _RUNNING.get(id(gen)):
        raise ValueError("generator already executing")
    _RUNNING[id(gen)] = True


def _seqz_end(gen):
    try:
        return next(gen)
    finally:
        _RUNNING[id(gen)] = False


def reset_running():
    _RUNNING.clear()


def _is_lock_expr(node):
    src = ast.unparse(node).lower()
    return "lock" in src


class _Rewriter(ast.NodeTransformer):
    def __init__(self):
        self.tmp = 0
        self.depth = 0

    def visit_FunctionDef(self, node):
        if self.depth > 0:
            return node            # nested defs are left alone
        self.depth += 1
        node.body = self.block(node.body)
        self.depth -= 1
        return node

    def visit_Lambda(self, node):
        return node

    def block(self, stmts):
        out = []
        for st in stmts:
            if isinstance(st, ast.Expr) and isinstance(st.value, ast.Constant) and isinstance(st.value.value, str):
                out.append(st)
                continue
            out.append(ast.Expr(ast.Yield(ast.Name("_SEQZ_P", ast.Load()))))
            r = self.stmt(st)
            out.extend(r if isinstance(r, list) else [r])
        return out

    def stmt(self, st):
        if isinstance(st, ast.Expr) and isinstance(st.value, ast.Yield):
            v = st.value.value or ast.Constant(None)
            return ast.Expr(ast.Yield(ast.Tuple([ast.Constant("item"), v], ast.Load())))
        if isinstance(st, ast.Expr) and isinstance(st.value, ast.Call) and not st.value.args and not st.value.keywords:
            f = st.value.func
            nm = f.id if isinstance(f, ast.Name) else (f.attr if isinstance(f, ast.Attribute) else "")
            if nm == "acquire":
                # while not acquire(False): yield B
                call = ast.Call(f, [ast.Constant(False)], [])
                return ast.While(ast.UnaryOp(ast.Not(), call),
                                 [ast.Expr(ast.Yield(ast.Name("_SEQZ_B", ast.Load())))], [])
        if isinstance(st, ast.Expr) and isinstance(st.value, ast.Call) and (st.value.args or st.value.keywords):
            f = st.value.func
            nm = f.id if isinstance(f, ast.Name) else (f.attr if isinstance(f, ast.Attribute) else "")
            if nm == "acquire":
                # acquire(blocking[, timeout]) as a statement (result ignored).  Real time is arbitrary for a logical
                # thread: a positive timeout may expire during any wait (the owner can stay descheduled for longer), so a
                # timed acquire on a held mutex is a try-acquire that fails and the waiter goes on WITHOUT the mutex.
                args = list(st.value.args)
                kws = {k.arg: k.value for k in st.value.keywords}
                blocking = args[0] if args else kws.get("blocking", ast.Constant(True))
                timeout = args[1] if len(args) > 1 else kws.get("timeout", ast.Constant(-1))
                if not (isinstance(blocking, ast.Constant) and isinstance(timeout, ast.Constant)):
                    raise SeqError("acquire() with non-constant arguments: %s" % ast.unparse(st))
                try_once = ast.Call(f, [ast.Constant(False)], [])
                if not blocking.value:
                    return ast.Expr(try_once)
                if timeout.value is None or timeout.value < 0:
                    return ast.While(ast.UnaryOp(ast.Not(), try_once), [ast.Expr(ast.Yield(ast.Name("_SEQZ_B", ast.Load())))], [])
                # the owner may stay descheduled for longer than any timeout: a timed acquire on a held mutex can fail
                return ast.Expr(try_once)
        if isinstance(st, ast.With) and len(st.items) == 1 and st.items[0].optional_vars is None \
                and _is_lock_expr(st.items[0].context_expr):
            self.tmp += 1
            name = "_seqz_lock%d" % self.tmp
            assign = ast.Assign([ast.Name(name, ast.Store())], st.items[0].context_expr)
            acq = ast.While(ast.UnaryOp(ast.Not(), ast.Call(ast.Attribute(ast.Name(name, ast.Load()), "acquire", ast.Load()),
                                                           [ast.Constant(False)], [])),
                            [ast.Expr(ast.Yield(ast.Name("_SEQZ_B", ast.Load())))], [])
            rel = ast.Expr(ast.Call(ast.Attribute(ast.Name(name, ast.Load()), "release", ast.Load()), [], []))
            body = self.block(st.body)
            return [assign, acq, ast.Try(body, [], [], [rel])]
        if isinstance(st, (ast.If, ast.While, ast.For)):
            st.body = self.block(st.body)
            st.orelse = self.block(st.orelse) if st.orelse else []
            return st
        if isinstance(st, ast.Try):
            st.body = self.block(st.body)
            for h in st.handlers:
                h.body = self.block(h.body)
            st.orelse = self.block(st.orelse) if st.orelse else []
            st.finalbody = self.block(st.finalbody) if st.finalbody else []
            return st
        if isinstance(st, ast.With):
            st.body = self.block(st.body)
            return st
        if isinstance(st, (ast.FunctionDef, ast.ClassDef, ast.AsyncFunctionDef)):
            return st
        if isinstance(st, (ast.Assign, ast.AugAssign, ast.AnnAssign, ast.Expr, ast.Return, ast.Raise, ast.Pass,
                           ast.Break, ast.Continue, ast.Delete, ast.Assert, ast.Global, ast.Nonlocal,
                           ast.Import, ast.ImportFrom)):
            # a statement containing an inner `yield` expression (x = yield y) is not supported
            for sub in ast.walk(st):
                if isinstance(sub, (ast.Yield, ast.YieldFrom)):
                    raise SeqError("yield inside an expression is not supported: %s" % ast.unparse(st))
            # advancing a shared generator is not atomic: `f(advance_iterator(g))` becomes
            #   _seqz_begin(g); yield P; f(_seqz_end(g))
            # so that a second logical thread entering the same generator in the window is observed
            # (CPython raises "ValueError: generator already executing").
            hoisted = []
            for sub in ast.walk(st):
                if isinstance(sub, ast.Call) and isinstance(sub.func, ast.Name) and \
                        sub.func.id in ("advance_iterator", "next") and len(sub.args) == 1 and \
                        isinstance(sub.args[0], ast.Name) and not sub.keywords:
                    hoisted.append(sub)
            if len(hoisted) == 1:
                call = hoisted[0]
                g = call.args[0].id
                begin = ast.Expr(ast.Call(ast.Name("_seqz_begin", ast.Load()), [ast.Name(g, ast.Load())], []))
                call.func = ast.Name("_seqz_end", ast.Load())
                return [begin, ast.Expr(ast.Yield(ast.Name("_SEQZ_P", ast.Load()))), st]
            return st
        raise SeqError("unsupported statement %s" % type(st).__name__)


def sequentialise(module, class_name, func_name):
    """-> (step generator function, transformed source text)."""
    path = module.__file__
    tree = ast.parse(open(path, encoding="utf-8").read())
    target = None
    for node in ast.walk(tree):
        if isinstance(node, ast.ClassDef) and node.name == class_name:
            for sub in node.body:
                if isinstance(sub, ast.FunctionDef) and sub.name == func_name:
                    target = sub
    if target is None:
        raise SeqError("%s.%s not found in %s" % (class_name, func_name, path))
    target.decorator_list = []
    fn = _Rewriter().visit(target)
    # make sure it is a generator even if it had no statements
    fn.body.append(ast.If(ast.Constant(False), [ast.Expr(ast.Yield(ast.Constant(None)))], []))
    cls = ast.ClassDef(name=class_name, bases=[], keywords=[], body=[fn], decorator_list=[])
    mod = ast.Module([cls], [])
    ast.fix_missing_locations(mod)
    src = ast.unparse(mod)
    g = dict(module.__dict__)
    g["_SEQZ_P"] = P
    g["_SEQZ_B"] = B
    g["_seqz_begin"] = _seqz_begin
    g["_seqz_end"] = _seqz_end
    original = g.get(class_name)
    exec(compile(mod, "<seqz:%s.%s>" % (class_name, func_name), "exec"), g)
    fn = g[class_name].__dict__[func_name]
    if original is not None:
        g[class_name] = original       # two-argument super(Class, x) inside the body must see the real class
    return fn, src


def sequentialise_obj(module, cls_obj, func_name):
    """Like sequentialise() for a class that is not reachable by name at module level (defined inside a
    function): located through inspect on the class object."""
    import inspect
    src_lines, start = inspect.getsourcelines(cls_obj)
    src = textwrap.dedent("".join(src_lines))
    tree = ast.parse(src)
    cdef = tree.body[0]
    target = None
    for sub in cdef.body:
        if isinstance(sub, ast.FunctionDef) and sub.name == func_name:
            target = sub
    if target is None:
        raise SeqError("%s.%s not found" % (cls_obj.__name__, func_name))
    target.decorator_list = []
    fn = _Rewriter().visit(target)
    fn.body.append(ast.If(ast.Constant(False), [ast.Expr(ast.Yield(ast.Constant(None)))], []))
    cls = ast.ClassDef(name=cls_obj.__name__, bases=[], keywords=[], body=[fn], decorator_list=[])
    mod = ast.Module([cls], [])
    ast.fix_missing_locations(mod)
    text = ast.unparse(mod)
    g = dict(module.__dict__)
    orig = cls_obj.__dict__[func_name]
    orig = getattr(orig, "__func__", orig)
    if orig.__closure__:          # free variables of the enclosing function become globals of the rewritten copy
        for nm, cell in zip(orig.__code__.co_freevars, orig.__closure__):
            try:
                g[nm] = cell.cell_contents
            except ValueError:
                pass
    g.update(_SEQZ_P=P, _SEQZ_B=B, _seqz_begin=_seqz_begin, _seqz_end=_seqz_end)
    exec(compile(mod, "<seqz:%s.%s>" % (cls_obj.__name__, func_name), "exec"), g)
    return g[cls_obj.__name__].__dict__[func_name], text


class Thread(object):
    """A logical thread: wraps a step generator; collects items and the return value."""

    def __init__(self, gen, name=""):
        self.gen = gen
        self.name = name
        self.items = []
        self.done = False
        self.result = None
        self.error = None
        self.blocked = False
        self.steps = 0

    def step(self):
        """Advance to the next scheduling point.  Returns 'ran', 'blocked' or 'done'."""
        if self.done:
            return "done"
        while True:
            try:
                tok = next(self.gen)
            except StopIteration as e:
                self.done = True
                self.result = e.value
                return "done"
            except Exception as e:  # the thread died with an exception: that is an observation
                self.done = True
                self.error = e
                return "done"
            if tok is B or tok == B:
                self.blocked = True
                return "blocked"
            self.blocked = False
            if tok is P or tok == P:
                self.steps += 1
                return "ran"
            if isinstance(tok, tuple) and tok and tok[0] == "item":
                self.items.append(tok[1])
                continue
            # nested generators may yield foreign tokens: treat as a step
            return "ran"


def run_schedule(threads, segments, max_total=100000):
    """segments: list of (thread index, number of steps).  After the segments every thread is run to completion
    in index order (round-robin when one blocks).  Raises Deadlock if all unfinished threads are blocked."""
    total = 0
    for (ti, n) in segments:
        t = threads[ti]
        k = 0
        while k < n and not t.done:
            r = t.step()
            total += 1
            if r == "blocked":
                break           # cannot make progress: the segment ends early (the scheduler must switch)
            k += 1
    while not all(t.done for t in threads):
        progressed = False
        for t in threads:
            if t.done:
                continue
            r = t.step()
            total += 1
            if total > max_total:
                raise SeqError("schedule does not terminate")
            if r != "blocked":
                progressed = True
                # keep running this thread until it finishes or blocks
                while not t.done:
                    r = t.step()
                    total += 1
                    if r == "blocked":
                        break
                    if total > max_total:
                        raise SeqError("schedule does not terminate")
        if not progressed:
            raise Deadlock("every unfinished logical thread is blocked on the mutex")
    return total
