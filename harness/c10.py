"""C10 rruleset == ordered (rrules U rdates) - (exrules U exdates), for whatever has been added so far.

Members are symbolic: rruleset only needs its rule members to be iterables of increasing instants and its dates
to be comparable, so instants are solver integers (every coincidence / ordering pattern among them is a path).
The operation history is a concrete cell parameter; the instants inside it are symbolic.
"""
import itertools

from engine import chx, report
from engine import sym as S
from engine.chx import Cell

M = "harness.c10"


class StubRule(object):
    """An inclusion/exclusion rule: yields its (strictly increasing) instants."""

    def __init__(self, items):
        self.items = list(items)

    def __iter__(self):
        return iter(self.items)


def h_set(ops, cache):
    """ops: list of operations
         ("rrule", k) add an inclusion rule with k fresh instants      ("exrule", k) likewise, exclusion
         ("rdate",) / ("exdate",) add one fresh instant
         ("next", j)  take j items from a fresh iterator (kept alive)     ("list",) full listing (checked)
         ("count",)   count() (checked)                                   ("resume",) drain the kept iterator
    """
    from dateutil.rrule import rruleset
    n = 0
    for op in ops:
        if op[0] in ("rrule", "exrule"):
            n += op[1]
        elif op[0] in ("rdate", "exdate"):
            n += 1
    types = {"t%d" % i: int for i in range(n)}

    def check_listing(ctx, out, incl, excl, what, tag=""):
        ok = True
        for a, b in zip(out, out[1:]):
            ok = S.and_(ok, S.lt(a, b))
        ctx.check(ok, "%s: not strictly increasing / has duplicates" % what, key=tag + "order")
        for o in out:
            ctx.check(S.and_(S.or_(*[S.eq(o, x) for x in incl]) if incl else False,
                             S.not_(S.or_(*[S.eq(o, e) for e in excl])) if excl else True),
                      "%s: yields an instant that is not included or is excluded" % what, key=tag + "sound")
        for x in incl:
            ctx.check(S.or_(S.or_(*[S.eq(x, e) for e in excl]) if excl else False,
                            S.or_(*[S.eq(x, o) for o in out]) if out else False),
                      "%s: an included, non-excluded instant is missing" % what, key=tag + "complete")

    def fn(ctx, **kw):
        ts = [kw["t%d" % i] for i in range(n)]
        for t in ts:
            ctx.assume(S.within(t, 1, 100000))
        rs = rruleset(cache=cache)
        incl, excl = [], []
        k = 0
        live = None
        live_seen = None
        outcome = []
        tag = ""          # set once a cached set has had an older live iterator resumed after a mutation
        mutated_since_next = False
        for op in ops:
            if op[0] in ("rrule", "exrule", "rdate", "exdate"):
                mutated_since_next = True
            if op[0] in ("rrule", "exrule"):
                items = ts[k:k + op[1]]
                k += op[1]
                for a, b in zip(items, items[1:]):
                    ctx.assume(S.lt(a, b))
                (rs.rrule if op[0] == "rrule" else rs.exrule)(StubRule(items))
                (incl if op[0] == "rrule" else excl).extend(items)
            elif op[0] == "rdate":
                rs.rdate(ts[k])
                incl.append(ts[k])
                k += 1
            elif op[0] == "exdate":
                rs.exdate(ts[k])
                excl.append(ts[k])
                k += 1
            elif op[0] == "next":
                mutated_since_next = False
                live = iter(rs)
                live_seen = list(itertools.islice(live, op[1]))
                live_members = (list(incl), list(excl))
            elif op[0] == "resume":
                if live is not None:
                    if cache and mutated_since_next:
                        tag = "cached-live-iterator-across-mutation:"
                    try:
                        rest = list(live)
                    except Exception as e:
                        ctx.fail("an iterator started before a mutation raises %s when resumed" % type(e).__name__,
                                 key="resume-after-mutation-%s-%s" % ("cached" if cache else "uncached", type(e).__name__))
                    # an iterator started earlier reflects the members at the time it was started
                    if not cache:
                        check_listing(ctx, live_seen + rest, live_members[0], live_members[1], "resumed iterator")
                    live = None
            elif op[0] == "list":
                out = list(rs)
                check_listing(ctx, out, incl, excl, "list(rset)", tag)
                outcome.append(len(out))
            elif op[0] == "count":
                c = rs.count()
                out = list(rs)
                check_listing(ctx, out, incl, excl, "list(rset) after count()", tag)
                ctx.check(c == len(out), "count() != len(list(rset))", key=tag + "count")
                outcome.append(c)
            elif op[0] == "between":
                lo, hi = op[1], op[2]
                got = rs.between(lo, hi, inc=True)
                exp_in = [x for x in incl]
                for g in got:
                    ctx.check(S.and_(S.within(g, lo, hi), S.or_(*[S.eq(g, x) for x in incl]) if incl else False,
                                     S.not_(S.or_(*[S.eq(g, e) for e in excl])) if excl else True),
                              "between(): wrong element", key="between-sound")
                for x in incl:
                    ctx.check(S.or_(S.not_(S.within(x, lo, hi)), S.or_(*[S.eq(x, e) for e in excl]) if excl else False,
                                    S.or_(*[S.eq(x, g) for g in got]) if got else False),
                              "between(): missing element", key="between-complete")
                outcome.append(len(got))
        return tuple(outcome)
    return fn, types


def h_real(cache):
    """Real rrule members (concrete DAILY/WEEKLY rules overlapping) with symbolic rdate/exdate offsets (whole
    days after the common start): ties the stub member type to the real one."""
    import datetime
    from dateutil.rrule import rrule, rruleset, DAILY, WEEKLY
    types = dict(a=int, b=int, c=int)
    base = datetime.datetime(1997, 9, 2, 9, 0)

    def fn(ctx, a, b, c):
        for v in (a, b, c):
            ctx.assume(S.within(v, 0, 9))
        a, b, c = ctx.concrete(a), ctx.concrete(b), ctx.concrete(c)   # datetimes are built from them
        rs = rruleset(cache=cache)
        r1 = rrule(DAILY, count=6, dtstart=base)
        r2 = rrule(WEEKLY, count=2, dtstart=base)
        ex = rrule(DAILY, interval=2, count=3, dtstart=base + datetime.timedelta(days=1))
        rs.rrule(r1)
        first = list(rs)
        rs.rrule(r2)
        rs.rdate(base + datetime.timedelta(days=a))
        rs.exrule(ex)
        rs.exdate(base + datetime.timedelta(days=b))
        rs.exdate(base + datetime.timedelta(days=c))
        out = list(rs)
        incl = set(r1) | set(r2) | {base + datetime.timedelta(days=a)}
        excl = set(ex) | {base + datetime.timedelta(days=b), base + datetime.timedelta(days=c)}
        ctx.check(out == sorted(incl - excl), "rruleset with real rrule members differs from the set expression", key="real")
        ctx.check(first == list(r1), "single-rule set differs from the rule", key="real-first")
        return len(out)
    return fn, types


def op_sequences(tier):
    q = tier == "quick"
    seqs = []
    A = lambda *ops: seqs.append(list(ops))
    # static sets
    A(("rrule", 2), ("rrule", 2), ("list",))
    A(("rrule", 3), ("exrule", 2), ("list",))
    A(("rrule", 2), ("rdate",), ("exdate",), ("exdate",), ("list",))
    A(("rdate",), ("rdate",), ("rdate",), ("exrule", 2), ("count",))
    A(("exrule", 2), ("exdate",), ("list",))
    A(("rrule", 2), ("exrule", 3), ("exdate",), ("list",))
    # three members in one role: the merge heap has to re-order after one of them runs dry
    A(("rrule", 1), ("rrule", 2), ("rrule", 2), ("list",))
    A(("rdate",), ("rrule", 2), ("rrule", 2), ("count",))
    A(("rrule", 2), ("exrule", 1), ("exrule", 2), ("exdate",), ("list",))
    # mutation after (partial) iteration
    A(("rrule", 2), ("list",), ("rdate",), ("list",))
    A(("rrule", 2), ("rdate",), ("count",), ("exdate",), ("count",))
    A(("rrule", 3), ("next", 1), ("exdate",), ("list",), ("resume",))
    A(("rrule", 2), ("next", 1), ("rrule", 2), ("list",), ("resume",), ("list",))
    A(("rdate",), ("rdate",), ("list",), ("exrule", 2), ("list",), ("rdate",), ("list",))
    A(("rrule", 3), ("between", 100, 500), ("exdate",), ("between", 100, 500))
    A(("rrule", 11), ("next", 1), ("rdate",), ("resume",), ("list",))
    # an iterator started before a member is added and finished after it must not leave its own total behind
    A(("rrule", 2), ("next", 1), ("rdate",), ("resume",), ("count",))
    A(("rrule", 2), ("rdate",), ("next", 1), ("exdate",), ("resume",), ("count",), ("list",))
    if not q:
        A(("rrule", 3), ("rrule", 3), ("list",))
        A(("rrule", 2), ("rrule", 2), ("rrule", 2), ("list",))
        A(("rrule", 3), ("exrule", 3), ("exdate",), ("list",))
        A(("rrule", 2), ("rrule", 2), ("exrule", 2), ("exdate",), ("list",))
        A(("rdate",), ("rdate",), ("rdate",), ("exdate",), ("exdate",), ("exdate",), ("list",))
        A(("rrule", 3), ("rdate",), ("rdate",), ("exrule", 2), ("count",))
        A(("rrule", 2), ("rdate",), ("next", 2), ("exrule", 2), ("count",), ("resume",), ("rdate",), ("list",))
        A(("rrule", 3), ("count",), ("exrule", 2), ("count",), ("exdate",), ("between", 1, 1000))
        A(("rrule", 4), ("exrule", 3), ("list",))
        A(("exrule", 2), ("rrule", 2), ("rdate",), ("list",), ("exdate",), ("list",))
    return seqs


def cells(tier):
    cs = []
    q = tier == "quick"
    for i, seq in enumerate(op_sequences(tier)):
        for cache in (False, True):
            nm = "set[%s]%s" % (" ".join("".join(map(str, o)) for o in seq), "+cache" if cache else "")
            cs.append(Cell(M, "h_set", dict(ops=[list(o) for o in seq], cache=cache), name=nm,
                           budget_s=150 if q else 900, per_path_s=20))
    return cs


ASSUMPTIONS = [
    "instants are solver integers in 1..100000 (rruleset only compares, sorts and heap-orders them); inclusion/exclusion rule members "
    "are stub iterables of strictly increasing instants; cells with real rrule members use concrete DAILY/WEEKLY rules",
    "heapq / list.sort as executed under the CrossHair tracer (comparisons of symbolic ints fork); witness of every path replayed natively",
    "an iterator started before a mutation keeps the membership it was started with (checked only without caching)",
]
OUTSIDE = ["more than 8 instants / the listed operation histories", "instants that are falsy (the code tests `not lastdt`; datetimes never are)"]


def run(tier, seed, jobs):
    cs = report.filter_cells(cells(tier))
    res = chx.run_cells(cs, jobs)
    return report.aggregate("C10", res, assumptions=ASSUMPTIONS, bounds=dict(max_instants=12, histories=[c.name for c in cs]),
                            outside=OUTSIDE)
