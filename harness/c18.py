"""C18 zone factories: one shared object per key (sequential histories and logical-thread schedules),
zone equality / copy / pickle laws."""
import contextlib
import datetime
import copy
import gc
import pickle
import weakref
from collections import OrderedDict

from engine import chx, report
from engine import sym as S
from engine.chx import Cell

M = "harness.c18"


def _reset(kind):
    """Fresh factory state (the factories are process-wide singletons) with strong-cache size 2."""
    from dateutil import tz
    if kind == "tzoffset":
        c = tz.tzoffset
        c._TzOffsetFactory__instances = weakref.WeakValueDictionary()
        c._TzOffsetFactory__strong_cache = OrderedDict()
        c._TzOffsetFactory__strong_cache_size = 2
    elif kind == "tzstr":
        c = tz.tzstr
        c._TzStrFactory__instances = weakref.WeakValueDictionary()
        c._TzStrFactory__strong_cache = OrderedDict()
        c._TzStrFactory__strong_cache_size = 2
    else:
        tz.gettz.cache_clear()
        tz.gettz.set_cache_size(2)


KEYS = {
    "tzoffset": [("A", 3600), (None, -7200), ("A", "timedelta:3600.5"), ("td", "timedelta:3600")],
    "tzstr": [("EST5EDT",), ("AEST-10AEDT,M10.1.0,M4.1.0/3",), ("UTC+3",), ("EST5EDT", True)],
    "gettz": [("UTC",), ("America/New_York",), ("Europe/London",), ("EST5EDT",)],
}


def _request(kind, key, how="call"):
    from dateutil import tz
    import datetime
    if kind == "tzoffset":
        name, off = key
        if isinstance(off, str):
            off = datetime.timedelta(seconds=float(off.split(":")[1]))
        return tz.tzoffset(name, off) if how == "call" else tz.tzoffset.instance(name, off)
    if kind == "tzstr":
        return tz.tzstr(*key) if how == "call" else tz.tzstr.instance(*key)
    return tz.gettz(*key) if how == "call" else tz.gettz.nocache(*key)


def h_history(kind, length, first=None):
    """A history of `length` operations chosen symbolically from:
       req k | fresh k (instance/nocache) | drop k (forget the harness's references to key k, then gc) |
       clear (gettz only) | resize 1 | resize 3 (gettz only)"""
    nk = 3
    ops = [("req", k) for k in range(nk)] + [("fresh", 0)] + [("drop", k) for k in range(nk)]
    if kind == "gettz":
        ops += [("clear", 0), ("resize", 1), ("resize", 3)]
    types = {"op%d" % j: int for j in range(length)}

    def fn(ctx, **kw):
        _reset(kind)
        held = {k: [] for k in range(nk)}        # strong references the "application" still holds
        cleared_since = {k: False for k in range(nk)}
        trace = []
        for j in range(length):
            o = kw["op%d" % j]
            ctx.assume(S.within(o, 0, len(ops) - 1))
            if j == 0 and first is not None:
                ctx.assume(S.eq(o, first))          # the first operation is a cell parameter: the cells run in parallel
            op, k = ops[ctx.concrete(o)]
            trace.append("%s%d" % (op, k))
            if op == "req":
                z = _request(kind, KEYS[kind][k])
                ctx.check(z is not None, "factory returned None", key="none", trace=trace)
                ref = _request(kind, KEYS[kind][k], how="fresh")
                ctx.check(z == ref and ref == z, "the shared object is not equal to a freshly built zone for the same request", key="shared-equal-" + kind, trace=trace)
                probe = datetime.datetime(2003, 7, 1, 12, 0)
                ctx.check(z.utcoffset(probe) == ref.utcoffset(probe) and z.tzname(probe) == ref.tzname(probe),
                          "the shared object reports another offset / name than a freshly built zone for the same request", key="shared-answers-" + kind, trace=trace)
                for old in held[k]:
                    tag = "-after-cache_clear" if cleared_since[k] else ""
                    ctx.check(old is z, "a second live object for the same key was returned",
                              key="identity-%s%s" % (kind, tag), trace=trace)
                held[k].append(z)
            elif op == "fresh":
                a = _request(kind, KEYS[kind][k])
                b = _request(kind, KEYS[kind][k], how="fresh")
                ctx.check(b is not a, "instance()/nocache() returned the cached object", key="fresh-identity", trace=trace)
                ctx.check(b == a and a == b, "instance()/nocache() result not equal to the cached zone", key="fresh-equal", trace=trace)
                held[k].append(a)
            elif op == "drop":
                held[k] = []
                cleared_since[k] = False
                gc.collect()
            elif op == "clear":
                from dateutil import tz
                tz.gettz.cache_clear()
                for kk in range(nk):
                    if held[kk]:
                        cleared_since[kk] = True
            else:
                from dateutil import tz
                tz.gettz.set_cache_size(k)
        return tuple(len(v) for v in held.values())
    return fn, types


# ------------------------------------------------------------------ logical threads
@contextlib.contextmanager
def _model_lock(kind, lock):
    from dateutil import tz
    if kind == "tzoffset":
        obj, attr = tz.tzoffset, "_cache_lock"
    elif kind == "tzstr":
        obj, attr = tz.tzstr, "_TzStrFactory__cache_lock"
    else:
        obj, attr = tz.gettz, "_cache_lock"
    old = getattr(obj, attr)
    setattr(obj, attr, lock)
    try:
        yield
    finally:
        setattr(obj, attr, old)


def _step_call(kind):
    from engine import seqz
    import dateutil.tz._factories as F
    import dateutil.tz.tz as T
    if kind == "tzoffset":
        return seqz.sequentialise(F, "_TzOffsetFactory", "__call__")
    if kind == "tzstr":
        return seqz.sequentialise(F, "_TzStrFactory", "__call__")
    if kind == "tzutc":
        return seqz.sequentialise(F, "_TzSingleton", "__call__")
    # GettzFunc is defined inside a function: find it through the instance
    return seqz.sequentialise_obj(T, type(T.gettz), "__call__")


def h_threads(kind, same_key, preemptions, cache_size=None, second="call"):
    """second: what the second logical thread runs - the same factory call ("call") or gettz.cache_clear() ("clear").
    cache_size: strong-cache size set before the threads start (None = 2 as in the history cells)."""
    from dateutil import tz
    from engine import seqz
    import dateutil.tz.tz as T
    step_fn, _src = _step_call(kind)
    clear_fn = seqz.sequentialise_obj(T, type(T.gettz), "cache_clear")[0] if second == "clear" else None
    types = {"s%d" % j: int for j in range(preemptions)}
    bound = 40

    def fn(ctx, **kw):
        lock = seqz.ModelLock()
        if kind != "tzutc":
            _reset(kind)
        if cache_size is not None and kind == "gettz":
            tz.gettz.set_cache_size(cache_size)
            if second == "clear":           # a full strong cache before the race
                tz.gettz("UTC")
                tz.gettz("Europe/London")
        k0 = KEYS.get(kind, [()])[1 if kind == "gettz" else 0]
        k1 = k0 if same_key else KEYS[kind][2]

        def args(key):
            if kind == "tzoffset":
                name, off = key
                if isinstance(off, str):         # "timedelta:<seconds>" spelling of the key table
                    off = datetime.timedelta(seconds=float(off.split(":")[1]))
                return (tz.tzoffset, name, off)
            if kind == "tzstr":
                return (tz.tzstr,) + tuple(key)
            if kind == "tzutc":
                return (tz.tzutc,)
            return (tz.gettz,) + tuple(key)
        cm = _model_lock(kind, lock) if kind != "tzutc" else contextlib.nullcontext()
        with cm:
            ths = [seqz.Thread(step_fn(*args(k0)), "T0"),
                   seqz.Thread(step_fn(*args(k1)) if second == "call" else clear_fn(tz.gettz), "T1")]
            segs = []
            for j in range(preemptions):
                sj = kw["s%d" % j]
                ctx.assume(S.within(sj, 0, bound))
                segs.append((j % 2, ctx.concrete(sj)))
            try:
                seqz.run_schedule(ths, segs)
            except seqz.Deadlock:
                ctx.fail("deadlock between two factory calls", key="thread-deadlock-%s" % kind, segs=segs)
        for t in ths:
            if t.error is not None:
                ctx.fail("a factory call raised %s: %s" % (type(t.error).__name__, t.error),
                         key="thread-raises-%s-%s" % (kind, type(t.error).__name__), segs=segs)
            if second == "call" or t is ths[0]:
                ctx.check(t.result is not None, "a thread got None", key="thread-none-%s" % kind, segs=segs)
        if second != "call":
            pass
        elif same_key:
            ctx.check(ths[0].result is ths[1].result, "two threads got two different live objects for one key",
                      key="thread-identity-%s" % kind, segs=segs)
        else:
            ctx.check(ths[0].result is not ths[1].result, "different keys share one object", key="thread-mixup-%s" % kind, segs=segs)
        ctx.check(not lock.held and not lock.errors, "factory lock discipline broken", key="thread-lock-%s" % kind, segs=segs)
        return tuple(t.steps for t in ths)
    return fn, types


# ------------------------------------------------------------------ equality / copies
# neighbours in this list are compared with each other: transition-free files next to one another
GETTZ_NAMES = ["America/New_York", "Etc/GMT+5", "EST", "Etc/GMT-3", "UTC", "Etc/GMT-14", "Europe/London", "Asia/Tokyo", "Australia/Lord_Howe"]


def h_equal(kind):
    """Zones built from symbolic parameters: == reflexive/symmetric, equal zones give equal answers at a
    symbolic instant (whole seconds since 2000-01-01), copies and pickles (protocols 0..5) are equal and
    answer identically."""
    import datetime
    from dateutil import tz
    types = dict(a=int, b=int, t=int, proto=int)
    base = datetime.datetime(2000, 1, 1)
    GRID = 86400 * 61 + 3600 * 7

    def mk(v):
        if kind == "tzoffset":
            return tz.tzoffset("X", v * 900)
        if kind == "tzoffset-td":     # sub-second offsets given as timedelta (quarter seconds around one hour)
            return tz.tzoffset("X", datetime.timedelta(seconds=3600, microseconds=250000 * v))
        if kind == "tzrange":
            return tz.tzrange("STD", v * 3600, "DST", v * 3600 + 3600)
        if kind == "tzstr":
            if v % 6 >= 4:         # the POSIX reading of GMT+h / UTC+h is part of the zone's identity
                return tz.tzstr(["UTC+3", "GMT-5"][v % 6 - 4], posix_offset=True)
            return tz.tzstr(["EST5EDT", "AEST-10AEDT,M10.1.0,M4.1.0/3", "UTC+3", "CET-1CEST,M3.5.0,M10.5.0/3"][v % 6])
        if kind == "tzutc":
            return tz.tzutc()
        return tz.gettz(GETTZ_NAMES[v % len(GETTZ_NAMES)])

    def fn(ctx, a, b, t, proto):
        ctx.assume(S.within(a, 0, 5) if kind == "tzstr" else (S.within(a, -2, 2) if kind != "gettz" else S.within(a, 0, len(GETTZ_NAMES) - 1)))
        ctx.assume(S.within(b, a, a + 1))
        ctx.assume(S.within(t, 0, 400 * 86400))
        ctx.assume(S.within(proto, 0, 5))
        a, b, proto = ctx.concrete(a), ctx.concrete(b), ctx.concrete(proto)
        t = ctx.concrete(S.mulc(S.div(t, GRID), GRID))       # instants on a coarse grid keep realisation finite
        if ctx.symbolic:
            return None          # all inputs are pinned: the check itself runs in the native replay of this path's witness
        body(ctx, a, b, t, proto)
        return None

    def body(ctx, a, b, t, proto):
        za, zb = mk(a), mk(b)
        when = base + datetime.timedelta(seconds=t)
        ctx.check(za == za and not (za != za), "== not reflexive", key="refl-" + kind)
        ctx.check((za == zb) == (zb == za), "== not symmetric", key="symm-" + kind)

        def answers(z):
            d = when.replace(tzinfo=z)
            return (d.utcoffset(), d.dst(), d.tzname())
        if za == zb:
            ctx.check(answers(za) == answers(zb), "equal zones answer differently", key="eq-answers-" + kind)
        if kind == "tzstr":
            for v, z in ((a, za), (b, zb)):
                if v % 6 >= 2 and v % 6 != 3:
                    want = {2: 3, 4: -3, 5: 5}[v % 6]      # 'UTC+3' = three hours ahead; with posix_offset=True three behind; 'GMT-5' posix = five ahead
                    ctx.check(z.utcoffset(when) == datetime.timedelta(hours=want), "tzstr GMT/UTC offset reading differs from the request", key="tzstr-posix-offset")
        if kind == "tzoffset-td":
            for v, z in ((a, za), (b, zb)):
                ctx.check(z.utcoffset(None) == datetime.timedelta(seconds=3600, microseconds=250000 * v),
                          "tzoffset(name, timedelta) reports another offset than requested", key="offset-as-requested")
        made = []
        for name, mkc in (("copy", lambda: copy.copy(za)), ("deepcopy", lambda: copy.deepcopy(za)),
                          ("pickle%d" % proto, lambda: pickle.loads(pickle.dumps(za, proto)))):
            try:
                made.append((name, mkc()))
            except Exception as e:
                ctx.fail("%s of a %s zone raised %s" % (name, kind, type(e).__name__),
                         key="copy-raises-%s-%s-%s" % (kind, name, type(e).__name__))
        for name, c in made:
            ctx.check(c == za and za == c, "%s of a zone is not equal to it" % name, key="copy-eq-%s-%s" % (kind, name.rstrip("012345")))
            ctx.check(answers(c) == answers(za), "%s of a zone answers differently" % name, key="copy-answers-%s" % kind)
        return None
    return fn, types


def cells(tier):
    q = tier == "quick"
    cs = []
    for kind in ("tzoffset", "tzstr", "gettz"):
        nops = 10 if kind == "gettz" else 7
        for first in range(nops):
            cs.append(Cell(M, "h_history", dict(kind=kind, length=(3 if kind == "gettz" else 4) if q else (4 if kind == "gettz" else 5), first=first),
                           budget_s=240 if q else 700, max_violations=500))
    for kind in ("tzoffset", "tzstr", "gettz", "tzutc"):
        for same in ((True,) if kind == "tzutc" else (True, False)):
            cs.append(Cell(M, "h_threads", dict(kind=kind, same_key=same, preemptions=1), budget_s=120, max_violations=500))
            cs.append(Cell(M, "h_threads", dict(kind=kind, same_key=same, preemptions=2), budget_s=200 if q else 1200, max_violations=500))
    # gettz: strong-cache bookkeeping under races - size 0 / 1 with the same name, and a concurrent cache_clear()
    for size in (0, 1):
        cs.append(Cell(M, "h_threads", dict(kind="gettz", same_key=True, preemptions=2, cache_size=size), budget_s=200, max_violations=500))
    cs.append(Cell(M, "h_threads", dict(kind="gettz", same_key=False, preemptions=2, cache_size=1), budget_s=200, max_violations=500))
    cs.append(Cell(M, "h_threads", dict(kind="gettz", same_key=True, preemptions=2, cache_size=2, second="clear"), budget_s=200, max_violations=500))
    for kind in ("tzoffset", "tzoffset-td", "tzrange", "tzstr", "tzutc", "gettz"):
        cs.append(Cell(M, "h_equal", dict(kind=kind), budget_s=200 if q else 1200, max_violations=100))
    return cs


ASSUMPTIONS = [
    "histories and schedules: the operation indices / switch points are solver variables that are pinned per path (objects are real zone objects); "
    "strong-cache size set to 2 through the factories' own attributes so eviction is reachable within the bound",
    "a weak entry dies when the harness drops its references and runs gc.collect() (CPython reference counting); identity is only demanded while the harness holds a reference",
    "thread cells: the factory __call__ methods are re-parsed from the current source and rewritten to step generators (pre-emption before every statement, `with lock` -> try-acquire loop); "
    "dict / OrderedDict / WeakValueDictionary method calls are atomic steps (GIL granularity); two logical threads, pre-emption bound 1..2, from the post-import module state",
    "equality/copy cells: zone parameters and pickle protocol from small symbolic ranges (pinned per path), instant on a 61-day grid over 400 days; these cells pin every input and run the real objects untraced (solver-enumerated small domain)",
]
OUTSIDE = ["real OS threads and GC timing", "pre-emption bound > 2", "zones outside the listed vocabularies"]


def run(tier, seed, jobs):
    cs = report.filter_cells(cells(tier))
    res = chx.run_cells(cs, jobs)
    return report.aggregate("C18", res, assumptions=ASSUMPTIONS, bounds=dict(history_len=3 if tier == "quick" else 4), outside=OUTSIDE)
