"""C13 rrulestr and str(rrule) are inverse; RFC 5545 text means the same as keywords.

'Same occurrences' is checked two ways: identical normalised rule state (what iteration is a function of) and an
identical prefix of occurrences.  The numeric parameters of a rule are solver variables that are pinned per path
(the text is built from them); part names, order, letter case and weekday spellings are cell parameters.
"""
import datetime
import itertools

from engine import chx, report
from engine import sym as S
from engine.chx import Cell
from harness import c01

M = "harness.c13"
WD = ("MO", "TU", "WE", "TH", "FR", "SA", "SU")
FREQS = ("YEARLY", "MONTHLY", "WEEKLY", "DAILY", "HOURLY", "MINUTELY", "SECONDLY")
STATE = ("_freq", "_interval", "_wkst", "_count", "_until", "_dtstart", "_bymonth", "_bymonthday", "_bynmonthday", "_byyearday",
         "_byeaster", "_byweekno", "_byweekday", "_bynweekday", "_byhour", "_byminute", "_bysecond", "_bysetpos")


def state(r):
    out = []
    for a in STATE:
        v = getattr(r, a)
        if isinstance(v, (set, list)):
            v = tuple(sorted(v))
        out.append((a, v))
    out.append(("_timeset", tuple(r._timeset) if r._timeset is not None else None))
    return out


def render(kw, spelling):
    """Independent RFC 5545 rendering of keyword arguments.  spelling: dict(order=rotation, case='upper'|'lower'|'mixed',
    byday='BYDAY'|'BYWEEKDAY', wdform='+1MO'|'1MO'|'MO(+1)')."""
    parts = [("FREQ", FREQS[kw["freq"]])]
    for k in ("interval", "count"):
        if kw.get(k) is not None:
            parts.append((k.upper(), str(kw[k])))
    if kw.get("wkst") is not None:
        parts.append(("WKST", WD[kw["wkst"]]))
    if kw.get("until") is not None:
        parts.append(("UNTIL", kw["until"].strftime("%Y%m%dT%H%M%S")))
    for k in ("bysetpos", "bymonth", "bymonthday", "byyearday", "byweekno", "byhour", "byminute", "bysecond", "byeaster"):
        if kw.get(k) is not None:
            parts.append((k.upper(), ",".join(str(v) for v in kw[k])))
    if kw.get("byweekday") is not None:
        items = []
        for w in kw["byweekday"]:
            if isinstance(w, int):
                items.append(WD[w])
            else:
                wd, n = w
                f = spelling.get("wdform", "+1MO")
                items.append({"+1MO": "%+d%s" % (n, WD[wd]), "1MO": "%d%s" % (n, WD[wd]), "MO(+1)": "%s(%+d)" % (WD[wd], n)}[f])
        parts.append((spelling.get("byday", "BYDAY"), ",".join(items)))
    rot = spelling.get("order", 0) % len(parts)
    parts = parts[rot:] + parts[:rot]
    text = ";".join("%s=%s" % p for p in parts)
    case = spelling.get("case", "upper")
    if case == "lower":
        text = text.lower()
    elif case == "mixed":
        text = "".join(c.lower() if i % 3 == 0 else c for i, c in enumerate(text))
    return text


def _rule_kwargs(shape, interval, count, delta):
    """kwargs for dateutil and for render() from a C01 shape with numeric variations."""
    from dateutil.rrule import weekday
    kw = {k: v for k, v in shape.items() if k not in ("span", "K", "easter", "until_days")}
    kw["interval"] = interval
    if count:
        kw["count"] = count
    # vary one BY member within its legal range
    for k, lo, hi in (("bymonthday", -31, 31), ("byyearday", -366, 366), ("byweekno", -53, 53), ("bymonth", 1, 12),
                      ("byhour", 0, 23), ("byminute", 0, 59), ("bysecond", 0, 59), ("bysetpos", -366, 366)):
        if k in kw:
            vals = list(kw[k])
            v = vals[0] + delta
            if v == 0 and lo < 0:
                v = 1
            if k == "bysetpos":      # never beyond the shape's own position: an empty rule spins to year 9999 (2-20 s per path)
                lo, hi = -abs(vals[0]), abs(vals[0])
            vals[0] = max(lo, min(hi, v))
            kw[k] = vals
            break
    dk = dict(kw)
    if "byweekday" in dk:
        dk["byweekday"] = tuple(w if isinstance(w, int) else weekday(w[0], w[1]) for w in dk["byweekday"])
    for k, v in list(dk.items()):
        if isinstance(v, list):
            dk[k] = tuple(v)
    return dk, kw


def h_roundtrip(si, spelling):
    from dateutil import rrule as RR
    shape = c01.shapes("thorough")[si]
    types = dict(interval=int, count=int, delta=int)
    start = datetime.datetime(1997, 9, 2, 9, 0)

    def fn(ctx, interval, count, delta):
        ctx.assume(S.within(interval, 1, 4))
        ctx.assume(S.within(count, 0, 3))
        ctx.assume(S.within(delta, -2, 2))
        interval, count, delta = ctx.concrete(interval), ctx.concrete(count), ctx.concrete(delta)
        if ctx.symbolic:
            return None          # all inputs are pinned: the check itself runs in the native replay of this path's witness
        with ctx.untraced():
            dk, kw = _rule_kwargs(shape, interval, count, delta)
            freq = dk.pop("freq")
            try:
                rule = RR.rrule(freq, dtstart=start, **dk)
            except ValueError:
                return None
            key = "roundtrip:" + c01._shape_key(shape)
            # (1) str -> rrulestr
            text = str(rule)
            try:
                back = RR.rrulestr(text)
            except Exception as e:
                ctx.fail("rrulestr(str(rule)) raised %s for %r" % (type(e).__name__, text), key=key + ":raises")
            ctx.check(state(back) == state(rule), "rrulestr(str(rule)) has a different normalised state: %r" % (text,), key=key + ":state")
            # str() is an observation: a second rendering, and the rule itself afterwards, are unchanged
            before = state(rule)
            try:
                text2 = str(rule)
                again = rule.replace()
            except Exception as e:
                ctx.fail("after one str(rule), a second str(rule) / rule.replace() raised %s" % type(e).__name__, key=key + ":str-twice-raises")
            ctx.check(text2 == text, "str(rule) differs the second time: %r / %r" % (text, text2), key=key + ":str-twice")
            ctx.check(state(rule) == before and state(again) == before, "str(rule) changed the rule (or what replace() rebuilds it from)", key=key + ":str-mutates")
            if not shape.get("easter"):
                ra, rb = rule, back
                try:
                    a = list(itertools.islice(ra, 4))
                except Exception:       # iteration defects of the rule itself are C01's subject
                    a = None
                if a is not None:
                    b = list(itertools.islice(rb, 4))
                    ctx.check(a == b, "rrulestr(str(rule)) generates different occurrences", key=key + ":occurrences")
            # (2) independent RFC spelling == keyword construction
            if "byeaster" not in kw:
                rfc = render(dict(kw, freq=freq), spelling)
                variants = [("DTSTART:19970902T090000\nRRULE:" + rfc, {}), (rfc, dict(dtstart=start)), ("RRULE:" + rfc, dict(dtstart=start))]
                if spelling.get("fold"):
                    folded = "RRULE:" + rfc
                    folded = folded[:20] + "\n " + folded[20:]
                    variants.append(("DTSTART:19970902T090000\n" + folded, dict(unfold=True)))
                for (t, opts) in variants:
                    try:
                        r2 = RR.rrulestr(t, **opts)
                    except Exception as e:
                        ctx.fail("rrulestr(%r) raised %s" % (t, type(e).__name__), key="spelling:%s:raises" % _skey(spelling))
                    ctx.check(state(r2) == state(rule), "RFC text %r does not mean the same as the keyword construction" % (t,),
                              key="spelling:%s:state" % _skey(spelling))
        return None
    return fn, types


def _skey(sp):
    return ",".join("%s=%s" % kv for kv in sorted(sp.items()))


def h_sets_and_options():
    """Multi-line inputs build the corresponding set; forceset / compatible / ignoretz / tzids; malformed parts raise."""
    from dateutil import rrule as RR
    from dateutil import tz
    types = dict(i=int, n=int)
    CASES = ["cold-rdate", "set", "forceset", "compatible", "tzid", "utc-z", "ignoretz", "tzids-map", "unknown-part", "bad-freq", "bad-value", "bad-wd",
             "unknown-prop", "empty", "cache", "tzid-names", "tzid-callable", "tzid-exdate", "crlf", "crlf-unfold", "crlf-folded", "crlf-compatible", "ignoretz-set"]
    TZNAMES = ["Mine", "Etc/GMT-3", "America/Port-au-Prince", "W-SU", "US/East-Indiana", "Zone.With.Dots", "Plus+Minus-", "lower_case/x"]

    def fn(ctx, i, n):
        ctx.assume(S.within(i, 0, len(CASES) - 1))
        ctx.assume(S.within(n, 1, 5))
        case, n = CASES[ctx.concrete(i)], ctx.concrete(n)
        start = datetime.datetime(1997, 9, 2, 9, 0)
        if ctx.symbolic:
            return None          # all inputs are pinned: the check itself runs in the native replay of this path's witness
        with ctx.untraced():
            key = "options:" + case
            if case == "cold-rdate":
                # history independence: the very first rrulestr call of a fresh interpreter gets RRULE + RDATE text with dtstart=
                import subprocess
                import sys as _sys
                code = ("import sys, datetime; sys.path.insert(0, %r)\n"
                        "from dateutil import rrule as RR\n"
                        "s = datetime.datetime(1997, 9, 2, 9, 0)\n"
                        "r = RR.rrulestr('RRULE:FREQ=DAILY;COUNT=%d\\nRDATE:19971224T090000', dtstart=s)\n"
                        "e = RR.rruleset(); e.rrule(RR.rrule(RR.DAILY, count=%d, dtstart=s)); e.rdate(datetime.datetime(1997, 12, 24, 9, 0))\n"
                        "print('SAME' if list(r) == list(e) else 'DIFFERENT')\n") % (chx.REPO_SRC, n, n)
                pr = subprocess.run([_sys.executable, "-c", code], capture_output=True, text=True, timeout=120)
                ctx.check(pr.returncode == 0 and "SAME" in pr.stdout,
                          "first rrulestr call of a fresh interpreter (RRULE+RDATE, dtstart=) fails or differs: %s" % (pr.stderr.strip().splitlines()[-1:] or pr.stdout.strip(),),
                          key=key)
            elif case == "set":
                text = ("DTSTART:19970902T090000\nRRULE:FREQ=DAILY;COUNT=%d\nRRULE:FREQ=WEEKLY;COUNT=2\nRDATE:19970910T090000\n"
                        "EXRULE:FREQ=DAILY;INTERVAL=2;COUNT=2\nEXDATE:19970904T090000" % (n + 2))
                rs = RR.rrulestr(text)
                ctx.check(isinstance(rs, RR.rruleset), "multi-line input did not build a set", key=key)
                exp = RR.rruleset()
                exp.rrule(RR.rrule(RR.DAILY, count=n + 2, dtstart=start))
                exp.rrule(RR.rrule(RR.WEEKLY, count=2, dtstart=start))
                exp.rdate(datetime.datetime(1997, 9, 10, 9, 0))
                exp.exrule(RR.rrule(RR.DAILY, interval=2, count=2, dtstart=start))
                exp.exdate(datetime.datetime(1997, 9, 4, 9, 0))
                ctx.check(list(rs) == list(exp), "set built from text differs from the keyword-built set", key=key)
            elif case == "forceset":
                r = RR.rrulestr("FREQ=DAILY;COUNT=%d" % n, dtstart=start, forceset=True)
                ctx.check(isinstance(r, RR.rruleset) and list(r) == list(RR.rrule(RR.DAILY, count=n, dtstart=start)), "forceset wrong", key=key)
            elif case == "compatible":
                r = RR.rrulestr("DTSTART:19970902T090000\nRRULE:FREQ=YEARLY;BYMONTH=1;COUNT=%d" % n, compatible=True)
                ctx.check(isinstance(r, RR.rruleset) and list(r)[0] == start and len(list(r)) == n + 1,
                          "compatible=True must force a set and add DTSTART as an occurrence", key=key)
            elif case == "tzid":
                r = RR.rrulestr("DTSTART;TZID=America/New_York:19970902T090000\nRRULE:FREQ=DAILY;COUNT=%d" % n)
                first = list(r)[0]
                ctx.check(first.tzinfo is not None and first.utcoffset() == datetime.timedelta(hours=-4) and len(list(r)) == n, "TZID not resolved", key=key)
            elif case == "utc-z":
                r = RR.rrulestr("DTSTART:19970902T090000Z\nRRULE:FREQ=DAILY;COUNT=%d" % n)
                ctx.check(list(r)[0].utcoffset() == datetime.timedelta(0), "trailing Z not UTC", key=key)
            elif case == "ignoretz":
                r = RR.rrulestr("DTSTART:19970902T090000Z\nRRULE:FREQ=DAILY;COUNT=%d" % n, ignoretz=True)
                ctx.check(list(r)[0].tzinfo is None, "ignoretz kept a zone", key=key)
            elif case == "ignoretz-set":
                # every line kind carries a zone (Z): with ignoretz the whole set is the naive keyword-built one
                until = datetime.datetime(1997, 9, 2 + n + 3, 9, 0)
                text = ("DTSTART:19970902T090000Z\nRRULE:FREQ=DAILY;UNTIL=%sZ\nRDATE:19971001T090000Z\n"
                        "EXRULE:FREQ=DAILY;INTERVAL=2;UNTIL=%sZ\nEXDATE:19970903T090000Z" % (until.strftime("%Y%m%dT%H%M%S"), until.strftime("%Y%m%dT%H%M%S")))
                exp = RR.rruleset()
                exp.rrule(RR.rrule(RR.DAILY, until=until, dtstart=start))
                exp.rdate(datetime.datetime(1997, 10, 1, 9, 0))
                exp.exrule(RR.rrule(RR.DAILY, interval=2, until=until, dtstart=start))
                exp.exdate(datetime.datetime(1997, 9, 3, 9, 0))
                try:
                    got = list(RR.rrulestr(text, ignoretz=True))
                except Exception as e:      # noqa
                    got = "%s: %s" % (type(e).__name__, e)
                ctx.check(got == list(exp), "RRULE/RDATE/EXRULE/EXDATE text with zones under ignoretz=True differs from the naive keyword-built set: %r" % (got if isinstance(got, str) else len(got),), key=key)
                aware = list(RR.rrulestr(text))
                ctx.check([d.replace(tzinfo=None) for d in aware] == list(exp) and all(d.utcoffset() == datetime.timedelta(0) for d in aware),
                          "the same text without ignoretz is not the UTC set", key=key)
            elif case == "tzids-map":
                z = tz.tzoffset("X", 3600 * n)
                r = RR.rrulestr("DTSTART;TZID=Mine:19970902T090000\nRRULE:FREQ=DAILY;COUNT=2", tzids={"Mine": z})
                ctx.check(list(r)[0].tzinfo is z, "tzids mapping not used", key=key)
            elif case in ("tzid-names", "tzid-callable", "tzid-exdate"):
                z = tz.tzoffset("HYPH", 3600 * n)
                for nm in TZNAMES:
                    seen = []
                    if case == "tzid-callable":
                        def look(name, _s=seen):
                            _s.append(name)
                            return z
                        tzids = look
                    else:
                        tzids = {nm: z}
                    text = "DTSTART;TZID=%s:19970902T090000\nRRULE:FREQ=DAILY;COUNT=3" % nm
                    if case == "tzid-exdate":
                        text += "\nEXDATE;TZID=%s:19970903T090000" % nm
                    try:
                        r = RR.rrulestr(text, tzids=tzids)
                        occ = list(r)
                    except Exception as e:
                        ctx.fail("rrulestr with TZID=%s raised %s" % (nm, type(e).__name__), key=key + ":raises")
                    ctx.check(all(o.tzinfo is z for o in occ), "TZID=%s: occurrences carry %r instead of the zone supplied through tzids" % (nm, occ[0].tzinfo if occ else None), key=key)
                    ctx.check(len(occ) == (2 if case == "tzid-exdate" else 3), "TZID=%s: wrong number of occurrences (%d)" % (nm, len(occ)), key=key + ":count")
                    if case == "tzid-callable":
                        ctx.check(seen and all(x == nm for x in seen), "callable tzids was asked for %r, expected %r" % (seen, nm), key=key + ":asked")
            elif case.startswith("crlf"):
                want = list(RR.rrule(RR.WEEKLY, count=n, byweekday=(RR.TU, RR.TH), dtstart=start))
                if case == "crlf":
                    texts = [("DTSTART:19970902T090000\r\nRRULE:FREQ=WEEKLY;COUNT=%d;BYDAY=TU,TH\r\n" % n, {})]
                elif case == "crlf-unfold":
                    texts = [("DTSTART:19970902T090000\r\nRRULE:FREQ=WEEKLY;COUNT=%d;BYDAY=TU,TH\r\n" % n, dict(unfold=True)),
                             ("DTSTART:19970902T090000\r\nRRULE:COUNT=%d;BYDAY=TU,TH;FREQ=WEEKLY" % n, dict(unfold=True))]
                elif case == "crlf-folded":
                    full = "RRULE:FREQ=WEEKLY;COUNT=%d;BYDAY=TU,TH" % n
                    texts = [("DTSTART:19970902T090000\r\n" + full[:cut] + "\r\n " + full[cut:] + "\r\n", dict(unfold=True)) for cut in (6, 11, 13, 20, len(full) - 2)]
                    texts.append(("DTSTART:1997\r\n 0902T090000\r\n" + full + "\r\n", dict(unfold=True)))
                else:
                    want = None
                    texts = [("DTSTART:19970902T090000\r\nRRULE:FREQ=YEARLY;BYMONTH=1;COUNT=%d;BYDAY=TU\r\n" % n, dict(compatible=True))]
                for (text, opts) in texts:
                    try:
                        got = list(RR.rrulestr(text, **opts))
                    except Exception as e:
                        ctx.fail("rrulestr(%r, %s) raised %s: %s" % (text, opts, type(e).__name__, str(e)[:60]), key=key + ":raises")
                    if want is not None:
                        ctx.check(got == want, "CRLF text %r (%s) does not give the keyword rule's occurrences" % (text, opts), key=key)
                    else:
                        ctx.check(got[0] == start and len(got) == n + 1, "compatible=True with CRLF text: DTSTART occurrence missing", key=key)
            elif case == "cache":
                r = RR.rrulestr("FREQ=DAILY;COUNT=%d" % n, dtstart=start, cache=True)
                ctx.check(r._cache is not None and len(list(r)) == n, "cache option lost", key=key)
            else:
                bad = {"unknown-part": "FREQ=DAILY;BYFOO=%d" % n, "bad-freq": "FREQ=FORTNIGHTLY;COUNT=%d" % n, "bad-value": "FREQ=DAILY;COUNT=x%d" % n,
                       "bad-wd": "FREQ=WEEKLY;BYDAY=%dXX" % n, "unknown-prop": "DTSTART:19970902T090000\nFOO:bar%d" % n, "empty": ""}[case]
                try:
                    RR.rrulestr(bad, dtstart=start)
                    ctx.fail("malformed text %r accepted" % bad, key=key + ":accepted")
                except ValueError:
                    pass
                except Exception as e:
                    ctx.fail("malformed text %r raised %s instead of ValueError" % (bad, type(e).__name__), key=key + ":" + type(e).__name__)
        return None
    return fn, types


SPELLINGS = [dict(), dict(order=1, case="lower"), dict(order=2, case="mixed", byday="BYWEEKDAY"), dict(order=3, wdform="1MO"),
             dict(wdform="MO(+1)", byday="BYWEEKDAY", case="lower"), dict(order=4, fold=1)]


def cells(tier):
    q = tier == "quick"
    cs = [Cell(M, "h_sets_and_options", {}, budget_s=120)]
    n = len(c01.shapes("thorough"))
    for si in range(n):
        if c01.shapes("thorough")[si].get("until_days"):
            continue            # UNTIL is rendered from a datetime computed at run time: covered by the options cell
        for sp in (SPELLINGS[:1] if q and si % 3 else (SPELLINGS[:3] if q else SPELLINGS)):
            cs.append(Cell(M, "h_roundtrip", dict(si=si, spelling=sp), name="rt[%s|%s]" % (c01._shape_key(c01.shapes("thorough")[si]), _skey(sp)),
                           budget_s=300 if q else 900, max_violations=20))
    return cs


ASSUMPTIONS = [
    "rule shapes are those of C01's covering set; interval (1..4), count (0..3 = absent..3) and one BY member (varied by -2..+2 around the shape's value) are solver variables pinned per path; "
    "the rule text is concrete once they are pinned, so the parser runs natively (string handling of symbolic numbers realises them anyway)",
    "equality of rules = equality of the normalised state tuple (_freq .. _timeset) AND of the first 4 occurrences",
    "the RFC rendering used for the spelling cells is written independently (harness/c13.py: render)",
]
OUTSIDE = ["aware starts in str(rule) (the property restricts that half to naive starts)", "tzinfos callables beyond a fixed mapping", "arbitrary free text"]


def run(tier, seed, jobs):
    cs = report.filter_cells(cells(tier))
    res = chx.run_cells(cs, jobs)
    return report.aggregate("C13", res, assumptions=ASSUMPTIONS, bounds=dict(cells=len(cs)), outside=OUTSIDE, level="other",
                            explanation="str(rule)/rrulestr round trips: rule parameters and the naive start are symbolic "
                            "CrossHair/z3 variables (year pinned per cell: symbolic calendar years make every rrule query "
                            "unknown), each path's witness is replayed natively and the occurrence prefix of the re-parsed rule "
                            "is compared with the original; rruleset/option cells are pinned-input native replays")
