"""C20 isoparse never misreads."""
from engine import chx, report, stubs, sym
from engine import sym as S
from engine.chx import Cell

M = "harness.iso"


REPR = [0, 1, 2, 3, 4, 5, 6, 8, 9, 10, 12, 16, 20, 24, 100, 399]   # year residues mod 400 for week-shaped inputs in the quick tier: every (leap, weekday of 1 Jan) class + century + last


GARBAGE = [10, 32, 9, 95, 43, 45, 0, 46, 58, 48, 0xb2]      # newline, blank, tab, '_', signs, NUL, '.', ':', a digit, non-ASCII
BASES = {
    "date": ["2014", "2014-02", "201402", "2014-02-04", "20140204", "2014-W06", "2014W06", "2014-W06-2", "2014W062", "2014-035", "2014035"],
    "time": ["12", "12:34", "1234", "12:34:56", "123456", "12:34:56.5", "12:34:56,123456", "12:34+05:30", "1234Z", "12:34:56-0530", "24:00"],
    "tz": ["Z", "+05", "-0530", "+05:30", "-00:30", "+00:00"],
    "dt": ["2014-02-04T12:34", "20140204T123456", "2014-02-04T12:34:56.789+05:30", "2014-W06-2T12", "2014035T1234Z", "2014-02-04 12:34:56"],
}


def h_garbage(entry, mode, sep=None):
    """One-character damage to well-formed strings: a byte from a list of white space / signs / separators / digits /
    non-ASCII values replaces a character, is inserted, or replaces a deleted character's neighbourhood (delete one, append
    one).  Base string, position, byte and kind of damage are pinned per path; each damaged string runs natively through
    the same oracle as the free-byte cells (accepted => a strict layout matches and the value is its denotation; rejected
    => ValueError and nothing else)."""
    from harness import iso
    bases = BASES[entry]
    types = dict(bi=int, pos=int, gi=int)
    maxlen = max(len(b) for b in bases)

    def fn(ctx, bi, pos, gi):
        ctx.assume(S.within(bi, 0, len(bases) - 1))
        ctx.assume(S.within(pos, 0, maxlen))
        ctx.assume(S.within(gi, 0, len(GARBAGE) - 1))
        bi, pos, gi = ctx.concrete(bi), ctx.concrete(pos), ctx.concrete(gi)
        base = [ord(c) for c in bases[bi]]
        if pos > len(base) or (mode != 1 and pos >= len(base)):
            ctx.assume(False)
        if ctx.symbolic:
            return None
        g = GARBAGE[gi]
        if mode == 0:
            bs = base[:pos] + [g] + base[pos + 1:]
        elif mode == 1:
            bs = base[:pos] + [g] + base[pos:]
        else:
            bs = base[:pos] + base[pos + 1:] + [g]
        if not bs:
            return None
        inner = iso.h_iso(entry, bs, "c20", sep)[0]
        with ctx.untraced():
            inner(ctx)
        return None
    return fn, types


def cells(tier):
    q = tier == "quick"
    cs = []
    for mode in (0, 1, 2):       # replace / insert / delete-and-append
        for entry in ("date", "time", "tz", "dt"):
            cs.append(Cell("harness.c20", "h_garbage", dict(entry=entry, mode=mode), budget_s=240))
        cs.append(Cell("harness.c20", "h_garbage", dict(entry="dt", mode=mode, sep="T"), budget_s=240))

    def free(entry, n, budget, sep=None):
        nm = "%s%s/free%d" % (entry, "" if sep is None else "[sep=%s]" % sep, n)
        params = dict(entry=entry, tpl=["?"] * n, mode="c20", sep=sep)
        if q and entry in ("date", "dt") and n >= 7:
            # week-shaped inputs are the expensive region: one cell per year residue (parallel), one for the rest
            for r in [None] + REPR:
                p2 = dict(params, year_residues=[] if r is None else [r])
                cs.append(Cell(M, "h_iso", p2, name=nm + ("[non-week]" if r is None else "[week,y%%400=%d]" % r),
                               budget_s=budget, per_path_s=40, max_violations=60))
            return
        cs.append(Cell(M, "h_iso", params, name=nm, budget_s=budget, per_path_s=40, max_violations=60))
    if q:
        for n in (4, 7, 8):
            free("date", n, 240)
        for n in (1, 3, 5, 6):
            free("tz", n, 60)
        for n in (2, 5, 8, 9):
            free("time", n, 150)
        free("dt", 10, 240)
        free("dt", 11, 240, sep="T")
    else:
        # budgets sized so that the whole tier stays near one hour on 16 cores (the long dt cells do not exhaust anyway)
        for n in range(0, 12):
            free("date", n, 1200)
        for n in range(0, 9):
            free("tz", n, 300)
        for n in range(0, 15):
            free("time", n, 900)
        for n in range(0, 17):
            free("dt", n, 1200)
        for n in (10, 11, 13, 14):
            free("dt", n, 1200, sep="T")
            free("dt", n, 1200, sep=" ")
    return cs


ASSUMPTIONS = [
    "input is bytes (the str/stream paths only add .encode('ascii') / .read())",
    "builtin int as seen from dateutil.parser.isoparser is replaced by a DFA model of CPython's int(bytes) base-10 grammar "
    "(whitespace, sign, underscores) -- validated against the real int() on every run",
    "bytes.isdigit / `in b'...'` on symbolic bytes = fork-free definitions; tz.tzoffset bypasses the instance cache",
    "CrossHair's datetime model with the calendar stubs of engine/stubs.py; every path's witness is replayed natively",
    "lemma year_step handed to the solver on week-date paths, proved separately each run",
    "quick tier: inputs shaped like a week date (digits + W) are decided for years congruent mod 400 to one of %r; thorough: all years" % (REPR,),
    "message formatting of symbolic values is elided ('<sym>')",
    "damage cells: well-formed base strings with one byte replaced / inserted / one character deleted and a byte appended, all pinned per path, run natively through the same oracle",
]
OUTSIDE = ["string lengths beyond the cells", "str and stream inputs", "isoparser(sep) with non-ASCII separators"]


def run(tier, seed, jobs):
    n, bad = stubs.validate_int_model(1, (2, 3))
    errs = [dict(kind="stub-validation", stub="int_of_bytes", sample=repr(b)) for b in bad[:5]]
    lem = sym.prove_calendar_lemmas()
    for (nm, verdict, _t) in lem:
        if verdict != "unsat":
            errs.append(dict(kind="lemma-not-proved", lemma=nm, verdict=verdict))
    cs = report.filter_cells(cells(tier))
    res = chx.run_cells(cs, jobs)
    return report.aggregate("C20", res, assumptions=ASSUMPTIONS, bounds=dict(cells=[c.name for c in cs]),
                            outside=OUTSIDE, stubs=["int_of_bytes"], extra_errors=errs,
                            stub_validation=dict(int_of_bytes=dict(cases=n, mismatches=len(bad))))
