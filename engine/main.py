"""CLI driver:  ./check <ID> --tier quick|thorough   |   ./check <ID> --replay <file>

Loads harness/<id>.py, which exposes
    run(tier, seed, jobs) -> dict(
        level, cells|obligations..., violations=[{key,msg,replay:{...}}], errors=[...],
        coverage={...}, assumptions=[...], extra={...})
and handles known findings, evidence, stdout protocol and exit codes uniformly.
"""
import argparse
import hashlib
import importlib
import json
import os
import re
import sys
import time

HERE = os.path.dirname(os.path.dirname(os.path.abspath(__file__)))
sys.path.insert(0, HERE)

from engine import chx  # noqa: E402

KNOWN = os.path.join(HERE, "known_findings.txt")


def load_known(prop):
    """-> (findings {key: text}, fixed [text])"""
    findings, fixed = {}, []
    if not os.path.exists(KNOWN):
        return findings, fixed
    for line in open(KNOWN, encoding="utf-8"):
        line = line.strip()
        if not line or line.startswith("#"):
            continue
        m = re.match(r"finding:\s+property=(\S+)\s+key=(\S+)\s*::\s*(.*)$", line)
        if m and m.group(1) == prop:
            findings[m.group(2)] = m.group(3)
            continue
        m = re.match(r"fixed:\s+property=(\S+)\s+(.*)$", line)
        if m and m.group(1) == prop:
            fixed.append(m.group(2))
    return findings, fixed


def main(argv=None):
    ap = argparse.ArgumentParser()
    ap.add_argument("prop")
    ap.add_argument("--tier", default=os.environ.get("VERIF_TIER", "quick"))
    ap.add_argument("--replay")
    ap.add_argument("--jobs", type=int, default=int(os.environ.get("VERIF_JOBS", "16")))
    ap.add_argument("--list-findings", action="store_true",
                    help="print every violation as a candidate known_findings line (never writes the file)")
    ap.add_argument("--only", help="substring filter on cell names (development aid; evidence is NOT written)")
    a = ap.parse_args(argv)
    prop = a.prop.upper()
    seed = int(os.environ.get("VERIF_SEED", "0"))
    tier = a.tier if a.tier in ("quick", "thorough") else "quick"
    mod = importlib.import_module("harness." + prop.lower())

    if a.replay:
        rec = json.load(open(a.replay))
        v = mod.replay(rec) if hasattr(mod, "replay") else chx.replay_cell_violation(rec)
        if v is not None:
            print("replayed: %s" % (getattr(v, "msg", v),))
            print("VIOLATION property=%s replay=%s" % (prop, a.replay))
            return chx.EXIT_VIOLATION
        print("not reproduced")
        return chx.EXIT_OK

    t0 = time.time()
    if a.only:
        os.environ["VERIF_ONLY"] = a.only
    r = mod.run(tier, seed, a.jobs)
    wall = time.time() - t0
    findings, _fixed = load_known(prop)

    viol = r.get("violations", [])
    errors = r.get("errors", [])
    new, known_hit = [], {}
    for v in viol:
        k = v.get("key")
        if k is not None and k in findings:
            known_hit.setdefault(k, v)
        else:
            new.append(v)
    if a.list_findings:
        for v in viol:
            print("finding: property=%s key=%s :: %s" % (prop, v.get("key"), v.get("msg")))
    for k in sorted(known_hit):
        print("KNOWN-FINDING: property=%s %s [key=%s]" % (prop, findings[k], k))
    stale = sorted(set(findings) - set(known_hit))
    if stale:
        # listed but not observed within this run's cells: they suppress nothing
        print("note: %d listed finding(s) were not observed in this run (outside this tier's cells), e.g. %s" % (len(stale), stale[0]))

    rdir = os.path.join(os.environ.get("VERIF_OUT_DIR", HERE), "replays", prop)
    lines = []
    for v in new:
        os.makedirs(rdir, exist_ok=True)
        body = json.dumps(v.get("replay", v), sort_keys=True, indent=1)
        p = os.path.join(rdir, hashlib.sha1(body.encode()).hexdigest()[:12] + ".json")
        with open(p, "w") as f:
            f.write(body)
        lines.append("VIOLATION property=%s replay=%s" % (prop, p))
        print("violation: %s  key=%s" % (v.get("msg"), v.get("key")))
    for e in errors[:20]:
        print("ENGINE-ERROR: %s" % json.dumps(e, default=str)[:1500])
    for c in r.get("inconclusive", [])[:40]:
        print("INCONCLUSIVE %s" % c)

    cov = dict(r.get("coverage", {}))
    ev = dict(property_id=prop, tier=tier, seed=seed, level=r.get("level", "model_checking"),
              coverage=cov, assumptions=r.get("assumptions", []), wall_s=round(wall, 2),
              violations=len(new), known_findings_observed=sorted(known_hit),
              engine_errors=len(errors))
    ev.update(r.get("extra", {}))
    if not a.only:
        evdir = os.path.join(os.environ.get("VERIF_OUT_DIR", HERE), "evidence")
        os.makedirs(evdir, exist_ok=True)
        with open(os.path.join(evdir, prop + ".json"), "w") as f:
            json.dump(ev, f, indent=1, sort_keys=True, default=str)
    print("summary property=%s tier=%s wall=%.1fs %s" % (prop, tier, wall, r.get("summary", "")))
    for ln in lines:
        print(ln)
    if lines:
        return chx.EXIT_VIOLATION
    if errors:
        return chx.EXIT_ENGINE
    return chx.EXIT_OK


if __name__ == "__main__":
    try:
        rc = main()
    except SystemExit:
        raise
    except BaseException as e:      # a crash of the machinery is an engine error (exit 3), never exit 1
        import traceback
        traceback.print_exc()
        print("ENGINE-ERROR: %s" % json.dumps(dict(kind="crash", exc=type(e).__name__, msg=str(e)[:500])))
        rc = chx.EXIT_ENGINE
    sys.exit(rc)
