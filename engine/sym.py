"""Fork-free arithmetic helpers for oracles and calendar stubs.

Under the tracer CrossHair's `%`, `//`, `bool * int` and `if` fork the path; these helpers build the z3 term
directly instead (z3's div/mod by a positive constant are floor division/modulo).  With plain Python values
they compute natively, so the same oracle text runs in the native replay.
"""
import z3


def _tools():
    from crosshair.libimpl import builtinslib as bl
    from crosshair.tracers import NoTracing
    return bl, NoTracing


def _is_sym(x):
    return hasattr(x, "var") and hasattr(type(x), "__ch_realize__")


def _z(x):
    """python int/bool or Symbolic{Int,Bool} -> z3 term"""
    if _is_sym(x):
        return x.var
    if isinstance(x, bool):
        return z3.BoolVal(x)
    if isinstance(x, int):
        return z3.IntVal(x)
    raise TypeError("sym: unsupported operand %r" % type(x))


def _zi(x):
    t = _z(x)
    if z3.is_bool(t):
        return z3.If(t, z3.IntVal(1), z3.IntVal(0))
    return t


def _zb(x):
    t = _z(x)
    if not z3.is_bool(t):
        return t != 0
    return t


def _any_sym(*xs):
    return any(_is_sym(x) for x in xs)


def _wrap_int(t):
    bl, _ = _tools()
    return bl.SymbolicInt(t)


def _wrap_bool(t):
    bl, _ = _tools()
    return bl.SymbolicBool(t)


def _nt():
    from crosshair.tracers import NoTracing
    return NoTracing()


def div(x, k):
    """floor(x / k) for a concrete k > 0"""
    assert isinstance(k, int) and k > 0
    with _nt():
        if not _any_sym(x):
            return x // k
        return _wrap_int(_zi(x) / k)


def mod(x, k):
    assert isinstance(k, int) and k > 0
    with _nt():
        if not _any_sym(x):
            return x % k
        return _wrap_int(_zi(x) % k)


def b2i(b):
    with _nt():
        if not _any_sym(b):
            return 1 if b else 0
        return _wrap_int(_zi(b))


def ite(c, a, b):
    with _nt():
        if not _any_sym(c):
            return a if c else b
        ta, tb = _z(a), _z(b)
        if z3.is_bool(ta) != z3.is_bool(tb):
            ta, tb = _zi(a), _zi(b)
        t = z3.If(_zb(c), ta, tb)
        return _wrap_bool(t) if z3.is_bool(t) else _wrap_int(t)


def and_(*bs):
    with _nt():
        if not _any_sym(*bs):
            return all(bs)
        return _wrap_bool(z3.And(*[_zb(b) for b in bs]))


def or_(*bs):
    with _nt():
        if not _any_sym(*bs):
            return any(bs)
        return _wrap_bool(z3.Or(*[_zb(b) for b in bs]))


def not_(b):
    with _nt():
        if not _any_sym(b):
            return not b
        return _wrap_bool(z3.Not(_zb(b)))


def eq(a, b):
    with _nt():
        if not _any_sym(a, b):
            return a == b
        ta, tb = _z(a), _z(b)
        if z3.is_bool(ta) != z3.is_bool(tb):
            ta, tb = _zi(a), _zi(b)
        return _wrap_bool(ta == tb)


def le(a, b):
    with _nt():
        if not _any_sym(a, b):
            return a <= b
        return _wrap_bool(_zi(a) <= _zi(b))


def lt(a, b):
    with _nt():
        if not _any_sym(a, b):
            return a < b
        return _wrap_bool(_zi(a) < _zi(b))


def add(*xs):
    with _nt():
        if not _any_sym(*xs):
            return sum(xs)
        return _wrap_int(z3.Sum([_zi(x) for x in xs]))


def sub(a, b):
    with _nt():
        if not _any_sym(a, b):
            return a - b
        return _wrap_int(_zi(a) - _zi(b))


def mulc(x, k):
    """x * k for a concrete int k"""
    assert isinstance(k, int)
    with _nt():
        if not _any_sym(x):
            return x * k
        return _wrap_int(_zi(x) * k)


def within(x, lo, hi):
    return and_(le(lo, x), le(x, hi))


# ---------------------------------------------------------------------------
# calendar (proleptic Gregorian), forward maps only

CUM = (0, 31, 59, 90, 120, 151, 181, 212, 243, 273, 304, 334)
MAXORD = 3652059


_YT = None      # active YearTable (see below) or None


def is_leap(y):
    if _YT is not None:
        k = _YT.locate(y)
        if k is not None:
            return _YT.leap[k]
    return or_(and_(eq(mod(y, 4), 0), not_(eq(mod(y, 100), 0))), eq(mod(y, 400), 0))


def days_before_year(y):
    if _YT is not None:
        k = _YT.locate(y)
        if k is not None:
            return _YT.jan1[k] - 1
    p = sub(y, 1)
    return add(mulc(p, 365), div(p, 4), mulc(div(p, 100), -1), div(p, 400))


class YearTable(object):
    """Year-relative calendar for one path whose calendar class is already pinned.

    After a harness has split on the class of the years y+lo .. y+hi (leap flags concrete, weekday of 1 January
    concrete), every calendar quantity of those years is `ordinal of 1 Jan of year y` plus a CONCRETE number.
    The table introduces that ordinal as a fresh solver variable J0 (constrained only by J0 % 7 and a range) and
    answers days_before_year / is_leap for any term that is provably y + k.  The solver then only ever sees
    linear arithmetic over J0: no floor-division-by-4/100/400, no mod 7 of a year polynomial.  J0 is MORE general
    than the true ordinal of any particular year of the class (which satisfies the same relations by the
    year-step lemma), so everything proved holds for every year of the class; a counterexample is replayed
    natively with a concrete year before it is reported."""

    def __init__(self, ctx, y, lo, hi, leap_of, jan1_weekday):
        from crosshair.statespace import context_statespace
        self.ctx, self.y, self.lo, self.hi = ctx, y, lo, hi
        self.leap = {k: bool(leap_of[k]) for k in range(lo, hi + 1)}
        with _nt():
            space = context_statespace()
            j0 = _wrap_int(z3.Int("jan1ord" + space.uniq()))
            space.add(z3.And(j0.var >= 800, j0.var <= MAXORD - 366 * (hi + 3)))
            space.add(j0.var % 7 == (jan1_weekday + 1) % 7)
        self.jan1 = {0: j0}
        acc = 0
        for k in range(0, hi):
            acc += 365 + (1 if self.leap[k] else 0)
            self.jan1[k + 1] = add(j0, acc)
        acc = 0
        for k in range(-1, lo - 1, -1):
            acc -= 365 + (1 if self.leap[k] else 0)
            self.jan1[k] = add(j0, acc)
        self._cache = {}

    def locate(self, e):
        if not _is_sym(e):
            return None
        if e is self.y:
            return 0
        key = id(e)
        hit = self._cache.get(key)
        if hit is not None and hit[0] is e:
            return hit[1]
        from crosshair.statespace import context_statespace
        with _nt():
            space = context_statespace()
            diff = e.var - self.y.var
            if space.solver.check() != z3.sat:
                return None
            kk = space.solver.model().evaluate(diff, model_completion=True)
            k = kk.as_long() if z3.is_int_value(kk) else None
            if k is None or not (self.lo <= k <= self.hi):
                res = None
            elif space.solver.check(diff != k) == z3.unsat:       # e == y + k on every model of this path
                res = k
            else:
                res = None
        self._cache[key] = (e, res)
        return res

    def __enter__(self):
        global _YT
        self._old = _YT
        _YT = self
        return self

    def __exit__(self, *a):
        global _YT
        _YT = self._old
        return False


def days_in_month(y, m):
    thirty = or_(eq(m, 4), eq(m, 6), eq(m, 9), eq(m, 11))
    feb = eq(m, 2)
    return add(31, mulc(b2i(thirty), -1), mulc(b2i(feb), -3), b2i(and_(feb, is_leap(y))))


def days_before_month(y, m):
    t = []
    for k in range(2, 13):
        t.append(mulc(b2i(le(k, m)), CUM[k - 1] - CUM[k - 2]))
    t.append(b2i(and_(lt(2, m), is_leap(y))))
    return add(*t)


def ordinal(y, m, d):
    return add(days_before_year(y), days_before_month(y, m), d)


def valid_ymd(y, m, d):
    return and_(within(y, 1, 9999), within(m, 1, 12), le(1, d), le(d, days_in_month(y, m)))


def weekday_of_ordinal(o):
    return mod(add(o, 6), 7)        # Monday == 0


def jan1_weekday(y):
    return mod(add(days_before_year(y), 7), 7)


def ord2ymd(o):
    """ordinal -> (year, month, day).  Year = estimate from the mean Gregorian year (off by at most one)
    corrected by two comparisons against the forward map (the solver never inverts the calendar)."""
    e = add(div(mulc(sub(o, 1), 400), 146097), 1)
    year = add(e, -1, b2i(lt(days_before_year(e), o)), b2i(lt(days_before_year(add(e, 1)), o)))
    doy = sub(o, days_before_year(year))
    leap = is_leap(year)
    month_terms = [1]
    before_terms = []
    for k in range(1, 12):
        extra = b2i(leap) if k >= 2 else 0
        extra_prev = b2i(leap) if k - 1 >= 2 else 0
        lim = add(CUM[k], extra)
        gt = lt(lim, doy)
        month_terms.append(b2i(gt))
        before_terms.append(ite(gt, sub(lim, add(CUM[k - 1], extra_prev)), 0))
    return year, add(*month_terms), sub(doy, add(*before_terms))


def month_day_of(y, o):
    """(month, day) of ordinal o known to lie in year y -- ITE sums over the day of year, no division."""
    doy = sub(o, days_before_year(y))
    leap = is_leap(y)
    month_terms = [1]
    before_terms = []
    for k in range(1, 12):
        extra = b2i(leap) if k >= 2 else 0
        extra_prev = b2i(leap) if k - 1 >= 2 else 0
        lim = add(CUM[k], extra)
        gt = lt(lim, doy)
        month_terms.append(b2i(gt))
        before_terms.append(ite(gt, sub(lim, add(CUM[k - 1], extra_prev)), 0))
    return add(*month_terms), sub(doy, add(*before_terms))


def ord2ymd_fresh(o):
    """ordinal -> (year, month, day) where the year is a FRESH solver variable y constrained by the forward
    map only: days_before_year(y) < o <= days_before_year(y + 1), 1 <= y <= 9999.  For a valid ordinal such a
    y exists and is unique, so the added constraints prune no behaviour; later terms mention y as a plain
    variable instead of a floor-division cascade.  Month and day are ITE sums over the day of year."""
    from crosshair.statespace import context_statespace
    with _nt():
        space = context_statespace()
        y = _wrap_int(z3.Int("dcy" + space.uniq()))
        zo = _zi(o)
        space.add(z3.And(y.var >= 1, y.var <= 9999))
        space.add(_zi(days_before_year(y)) < zo)
        space.add(zo <= _zi(days_before_year(add(y, 1))))
    doy = sub(o, days_before_year(y))
    leap = is_leap(y)
    month_terms = [1]
    before_terms = []
    for k in range(1, 12):
        extra = b2i(leap) if k >= 2 else 0
        extra_prev = b2i(leap) if k - 1 >= 2 else 0
        lim = add(CUM[k], extra)
        gt = lt(lim, doy)
        month_terms.append(b2i(gt))
        before_terms.append(ite(gt, sub(lim, add(CUM[k - 1], extra_prev)), 0))
    return y, add(*month_terms), sub(doy, add(*before_terms))


def year_step_lemma(y):
    """days_before_year(y + 1) == days_before_year(y) + 365 + leap(y)   (valid for every integer y >= 1)"""
    return eq(days_before_year(add(y, 1)), add(days_before_year(y), 365, b2i(is_leap(y))))


def prove_calendar_lemmas(timeout_ms=60000):
    """Discharge the lemma schemas used by ctx.lemma() -- returns [(name, verdict, seconds)]."""
    import time
    out = []
    y = z3.Int("y")

    def dby(t):
        p = t - 1
        return p * 365 + p / 4 - p / 100 + p / 400
    leap = z3.Or(z3.And(y % 4 == 0, y % 100 != 0), y % 400 == 0)
    s = z3.Solver()
    s.set("timeout", timeout_ms)
    s.add(y >= -1, y <= 10002)
    s.add(dby(y + 1) != dby(y) + 365 + z3.If(leap, 1, 0))
    t0 = time.time()
    r = str(s.check())
    out.append(("year_step_lemma: dby(y+1) == dby(y) + 365 + leap(y), y in -1..10002", r, round(time.time() - t0, 2)))
    return out
