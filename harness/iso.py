"""Shared harness for C07 (every well-formed string is accepted with the right value) and C20 (accepted =>
well-formed and right value; everything else ValueError).  Input is a byte list built from a template:
  int 0..255  literal byte          'D' symbolic ASCII digit           '?' unconstrained symbolic byte
"""
import contextlib

from engine import stubs
from engine import sym as S
from harness import isoref as R


def template_types(tpl):
    return {"b%d" % i: int for i, t in enumerate(tpl) if not isinstance(t, int)}


def build_bytes(ctx, tpl, kw):
    bs = []
    for i, t in enumerate(tpl):
        if isinstance(t, int):
            bs.append(t)
        else:
            b = kw["b%d" % i]
            if t == "D":
                ctx.assume(S.within(b, 48, 57))
            else:
                ctx.assume(S.within(b, 0, 255))
            bs.append(b)
    return bs


@contextlib.contextmanager
def iso_stubs():
    import dateutil.parser  # noqa
    stubs.patch_symbolic_bytes()
    stubs.patch_date_decompose()
    from dateutil import tz as realtz

    class _TzShim(object):
        """`tz` as seen from isoparser: same UTC singleton; tzoffset built without the instance cache (the weak
        dictionary lookup hashes the key at C level, which a symbolic offset cannot survive; the cache is C18's subject)."""
        UTC = realtz.UTC
        tzutc = realtz.tzutc

        @staticmethod
        def tzoffset(name, offset):
            return realtz.tzoffset.instance(name, offset)

    with stubs.rebind("dateutil.parser.isoparser", int=stubs.make_int_model(), tz=_TzShim):
        yield


def _date_eq(r, f):
    if f[0] == "ymd":
        return S.and_(S.eq(r.year, f[1]), S.eq(r.month, f[2]), S.eq(r.day, f[3]))
    return S.eq(r.toordinal(), f[1])


def _tz_eq(ctx, tzv, f):
    """tzv: tzinfo returned by the parser (concrete object kinds: tz.UTC / tzoffset / None)."""
    from dateutil import tz
    if f is None:
        return tzv is None
    if tzv is None:
        return False
    off = f[1]
    if type(tzv) is tz.tzoffset:
        secs = tzv._offset.days * 86400 + tzv._offset.seconds
        return S.and_(S.not_(S.eq(off, 0)), S.eq(secs, off))
    return S.and_(tzv is tz.UTC, S.eq(off, 0))


def classify(bs_conc):
    """Stable key for a malformed-but-accepted input: which characters make it malformed."""
    kinds = set()
    for b in bs_conc:
        if b in (9, 10, 11, 12, 13, 32):
            kinds.add("ws")
        elif b == 95:
            kinds.add("underscore")
        elif b in (43, 45):
            kinds.add("sign")
        elif 48 <= b <= 57 or b in (58, 84, 87, 90, 122, 46, 44):
            pass
        else:
            kinds.add("other")
    return "+".join(sorted(kinds)) or "digits-only"


class _Stream(object):
    """File-like input: isoparser reads it with .read()."""

    def __init__(self, data):
        self.data = data

    def read(self, n=-1):
        if n is None or n < 0:
            return self.data
        return self.data[:n]


def h_iso(entry, tpl, mode, sep=None, year_residues=None, via="bytes"):
    """entry: 'date' | 'time' | 'tz' | 'dt' ; mode: 'c20' | 'c07' ; sep: None or a 1-char str."""
    from dateutil.parser import isoparser
    stubs.patch_format_elision()
    tpl = list(tpl)
    types = template_types(tpl)
    sepb = None if sep is None else ord(sep)

    def fn(ctx, **kw):
        bs = build_bytes(ctx, tpl, kw)
        s = stubs.sym_bytes(bs, ctx)
        if entry in ("date", "dt") and len(bs) >= 7 and any(not isinstance(t, int) for t in tpl[:4]):
            if S.and_(R.alldig(bs[:4]), S.or_(S.eq(bs[4], 87), S.eq(bs[5], 87))):
                # week date: the arithmetic is mod 7 of day counts with //4, //100, //400 -- number theory that
                # z3's linear arithmetic does not finish on.  Pin the year's residue mod 400 (which fixes leap
                # status and every weekday of the 400-year cycle); the 400-year block number stays symbolic.
                yy = R.num(bs[:4])
                if year_residues is None:
                    for dy in (-1, 0, 1):
                        ctx.lemma(S.year_step_lemma(S.add(yy, dy)))
                    ctx.split(R.jan1_weekday(yy), range(7))
                    ctx.split(S.b2i(R.is_leap(yy)), range(2))
                elif year_residues == "all":
                    ctx.split(S.mod(yy, 400), range(400))
                else:
                    ctx.split_within(S.mod(yy, 400), year_residues)
        p = isoparser(sep)
        if via == "stream":
            s = _Stream(s)
        r, acc = None, False
        try:
            if entry == "date":
                r = p.parse_isodate(s)
            elif entry == "time":
                r = p.parse_isotime(s)
            elif entry == "tz":
                r = p.parse_tzstr(s)
            else:
                r = p.isoparse(s)
            acc = True
        except ValueError:
            pass
        except Exception as e:
            if mode == "c07":
                e = None      # the inverse law only speaks about representable datetimes: treated as a rejection
            elif ctx.symbolic:
                ctx.fail("exception other than ValueError escapes: %s" % type(e).__name__)
                e = None
            if e is not None:
                at_max = bytes(bs[:4]) == b"9999" and type(e) is OverflowError
                ctx.fail("exception other than ValueError escapes: %s" % type(e).__name__,
                         key="exc-%s-%s%s" % (entry, type(e).__name__, "-year9999" if at_max else ""),
                         text=repr(bytes(bs)))
        # ---- reference
        if entry == "date":
            lays = R.date_layouts(bs)
            match = [S.and_(ok, _date_eq(r, f)) for (_n, ok, f) in lays] if acc else []
        elif entry == "time":
            lays = R.time_layouts(bs)
            match = [S.and_(ok, S.eq(r.hour, S.mod(f[0], 24)), S.eq(r.minute, f[1]), S.eq(r.second, f[2]),
                            S.eq(r.microsecond, f[3]), _tz_eq(ctx, r.tzinfo, f[4])) for (_n, ok, f) in lays] if acc else []
        elif entry == "tz":
            lays = R.tz_layouts(bs)
            match = [S.and_(ok, _tz_eq(ctx, r, f)) for (_n, ok, f) in lays] if acc else []
        else:
            lays = R.datetime_layouts(bs, sep=sepb, allow_digit_sep=(mode == "c20"))
            match = []
            if acc:
                ro = r.toordinal()
                for (_n, ok, (df, tf)) in lays:
                    if tf is None:
                        m = S.and_(ok, _date_eq(r, df), S.eq(r.hour, 0), S.eq(r.minute, 0), S.eq(r.second, 0),
                                   S.eq(r.microsecond, 0), r.tzinfo is None)
                    else:
                        dord = R.ordinal(df[1], df[2], df[3]) if df[0] == "ymd" else df[1]
                        m = S.and_(ok, S.eq(ro, S.add(dord, S.b2i(S.eq(tf[0], 24)))), S.eq(r.hour, S.mod(tf[0], 24)),
                                   S.eq(r.minute, tf[1]), S.eq(r.second, tf[2]), S.eq(r.microsecond, tf[3]),
                                   _tz_eq(ctx, r.tzinfo, tf[4]))
                    match.append(m)
        anyvalid = S.or_(*[ok for (_n, ok, _f) in lays]) if lays else False
        if acc:
            anymatch = S.or_(*match) if match else False
            if mode == "c20":
                if not anyvalid:
                    if ctx.symbolic:      # key/text are computed by the native replay of the witness
                        ctx.fail("accepted a string that is not a well-formed ISO-8601 %s" % entry)
                    ctx.fail("accepted a string that is not a well-formed ISO-8601 %s" % entry,
                             key="accept-%s-%s" % (entry, classify(bs)), text=repr(bytes(bs)))
            if anyvalid:
                ctx.check(anymatch, "accepted but the value is not what the string denotes", key="value-%s" % entry)
            return "accepted"
        if mode == "c07":
            ctx.check(not anyvalid, "well-formed ISO-8601 %s rejected" % entry, key="reject-%s" % entry)
        return "rejected"
    return fn, types, iso_stubs
