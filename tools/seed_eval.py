#!/usr/bin/env python3
"""Confirm a seeded fault independently and run a check against it.
usage: seed_eval.py PROP SEED_DIR NAME [--tier quick]
 1. fresh scratch worktree of /repo HEAD; baseline failing-test ids (cached in /tmp/wt/baseline_ids.txt)
 2. apply patch.diff; test suite must show the same failing ids; demo.py must exit 1
 3. revert; demo.py must exit 0
 4. run ./check PROP against the patched scratch tree (VERIF_REPO_SRC), outputs under /tmp/wt/out_NAME
 5. write /verif/seeded/NAME/{patch.diff,demo.py,notes.md,meta.json}; remove the worktree
"""
import json, os, re, shutil, subprocess, sys, time
prop, sdir, name = sys.argv[1:4]
tier = sys.argv[5] if len(sys.argv) > 5 else "quick"
WT = "/tmp/wt/eval_%s" % name
VER = "/verif"


def sh(cmd, **kw):
    return subprocess.run(cmd, shell=True, capture_output=True, text=True, **kw)


def test_ids(wt):
    r = sh("cd %s && PYTHONPATH=%s/src /venv/bin/python -m pytest -q -p no:cacheprovider --timeout=900 --continue-on-collection-errors -rfE tests docs 2>&1 | grep -E '^(FAILED|ERROR)' | sed 's/ - .*//' | sort" % (wt, wt))
    return r.stdout


sh("git -C /repo worktree remove --force %s" % WT)
assert sh("git -C /repo worktree add -q --detach %s HEAD" % WT).returncode == 0
meta = dict(property=prop, name=name, source_dir=sdir)
try:
    base_file = "/tmp/wt/baseline_ids.txt"
    if not os.path.exists(base_file):
        open(base_file, "w").write(test_ids(WT))
    base = open(base_file).read()
    demo = os.path.join(sdir, "demo.py")
    r0 = sh("cd %s && PYTHONPATH=%s/src timeout 900 /venv/bin/python %s" % (WT, WT, demo))
    meta["demo_clean_exit"] = r0.returncode
    ap = sh("git -C %s apply %s" % (WT, os.path.join(sdir, "patch.diff")))
    meta["patch_applies"] = ap.returncode == 0
    ids = test_ids(WT)
    meta["tests_unchanged"] = ids == base
    r1 = sh("cd %s && PYTHONPATH=%s/src timeout 900 /venv/bin/python %s" % (WT, WT, demo))
    meta["demo_patched_exit"] = r1.returncode
    meta["demo_patched_tail"] = (r1.stdout + r1.stderr)[-400:]
    meta["confirmed"] = bool(meta["patch_applies"] and meta["tests_unchanged"] and r0.returncode == 0 and r1.returncode == 1)
    out = "/tmp/wt/out_%s" % name
    shutil.rmtree(out, ignore_errors=True)
    os.makedirs(out)
    t0 = time.time()
    env = dict(os.environ, VERIF_REPO_SRC=WT + "/src", VERIF_OUT_DIR=out)
    rc = subprocess.run([VER + "/check", prop, "--tier", tier], capture_output=True, text=True, env=env, cwd=VER)
    meta["check_cmd"] = "VERIF_REPO_SRC=<patched tree>/src ./check %s --tier %s" % (prop, tier)
    meta["check_exit"] = rc.returncode
    meta["check_wall_s"] = round(time.time() - t0, 1)
    lines = rc.stdout.splitlines()
    meta["check_violation_lines"] = len([l for l in lines if l.startswith("VIOLATION")])
    meta["check_sample"] = [l[:300] for l in lines if l.startswith("violation:")][:4]
    meta["check_summary"] = [l for l in lines if l.startswith("summary")][-1:] 
    meta["check_engine_errors"] = [l[:300] for l in lines if l.startswith("ENGINE-ERROR")][:3]
    meta["detected"] = rc.returncode == 1 and meta["check_violation_lines"] > 0
    dst = os.path.join(VER, "seeded", name)
    os.makedirs(dst, exist_ok=True)
    for f in ("patch.diff", "demo.py", "notes.md"):
        if os.path.exists(os.path.join(sdir, f)) and os.path.realpath(sdir) != os.path.realpath(dst):
            shutil.copy(os.path.join(sdir, f), os.path.join(dst, f))
    json.dump(meta, open(os.path.join(dst, "meta.json"), "w"), indent=1)
    print(json.dumps({k: meta[k] for k in ("name", "confirmed", "detected", "check_exit", "check_wall_s", "check_violation_lines")}))
finally:
    sh("git -C /repo worktree remove --force %s" % WT)
