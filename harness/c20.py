"""C20 isoparse never misreads."""
from engine import chx, report, stubs, sym
from engine.chx import Cell

M = "harness.iso"


REPR = [0, 1, 2, 3, 4, 5, 6, 8, 9, 10, 12, 16, 20, 24, 100, 399]   # year residues mod 400 for week-shaped inputs in the quick tier: every (leap, weekday of 1 Jan) class + century + last


def cells(tier):
    q = tier == "quick"
    cs = []

    def free(entry, n, budget, sep=None):
        nm = "%s%s/free%d" % (entry, "" if sep is None else "[sep=%s]" % sep, n)
        params = dict(entry=entry, tpl=["?"] * n, mode="c20", sep=sep)
        if q and entry in ("date", "dt") and n >= 7:
            # week-shaped inputs are the expensive region: one cell per year residue (parallel), one for the rest
            for r in [None] + REPR:
                p2 = dict(params, year_residues=[] if r is None else [r])
                cs.append(Cell(M, "h_iso", p2, name=nm + ("[non-week]" if r is None else "[week,y%%400=%d]" % r),
                               budget_s=budget, per_path_s=40, max_violations=60))
            return
        cs.append(Cell(M, "h_iso", params, name=nm, budget_s=budget, per_path_s=40, max_violations=60))
    if q:
        for n in (4, 7, 8):
            free("date", n, 240)
        for n in (1, 3, 5, 6):
            free("tz", n, 60)
        for n in (2, 5, 8, 9):
            free("time", n, 150)
        free("dt", 10, 240)
        free("dt", 11, 240, sep="T")
    else:
        # budgets sized so that the whole tier stays near one hour on 16 cores (the long dt cells do not exhaust anyway)
        for n in range(0, 12):
            free("date", n, 1200)
        for n in range(0, 9):
            free("tz", n, 300)
        for n in range(0, 15):
            free("time", n, 900)
        for n in range(0, 17):
            free("dt", n, 1200)
        for n in (10, 11, 13, 14):
            free("dt", n, 1200, sep="T")
            free("dt", n, 1200, sep=" ")
    return cs


ASSUMPTIONS = [
    "input is bytes (the str/stream paths only add .encode('ascii') / .read())",
    "builtin int as seen from dateutil.parser.isoparser is replaced by a DFA model of CPython's int(bytes) base-10 grammar "
    "(whitespace, sign, underscores) -- validated against the real int() on every run",
    "bytes.isdigit / `in b'...'` on symbolic bytes = fork-free definitions; tz.tzoffset bypasses the instance cache",
    "CrossHair's datetime model with the calendar stubs of engine/stubs.py; every path's witness is replayed natively",
    "lemma year_step handed to the solver on week-date paths, proved separately each run",
    "quick tier: inputs shaped like a week date (digits + W) are decided for years congruent mod 400 to one of %r; thorough: all years" % (REPR,),
    "message formatting of symbolic values is elided ('<sym>')",
]
OUTSIDE = ["string lengths beyond the cells", "str and stream inputs", "isoparser(sep) with non-ASCII separators"]


def run(tier, seed, jobs):
    n, bad = stubs.validate_int_model(1, (2, 3))
    errs = [dict(kind="stub-validation", stub="int_of_bytes", sample=repr(b)) for b in bad[:5]]
    lem = sym.prove_calendar_lemmas()
    for (nm, verdict, _t) in lem:
        if verdict != "unsat":
            errs.append(dict(kind="lemma-not-proved", lemma=nm, verdict=verdict))
    cs = report.filter_cells(cells(tier))
    res = chx.run_cells(cs, jobs)
    return report.aggregate("C20", res, assumptions=ASSUMPTIONS, bounds=dict(cells=[c.name for c in cs]),
                            outside=OUTSIDE, stubs=["int_of_bytes"], extra_errors=errs,
                            stub_validation=dict(int_of_bytes=dict(cases=n, mismatches=len(bad))))
