"""C02 parse() inverts supported unambiguous renderings: templates with symbolic digits run through the real parser."""
import datetime
import os

from engine import chx, numtok, report
from engine import sym as S
from engine.chx import Cell
from harness import parsekit as K
from harness.parsekit import F

M = "harness.c02"
MONTHS = ["Jan", "February", "Mar", "Apr", "May", "June", "Jul", "Aug", "Sept", "Oct", "November", "Dec"]
DAYS = ["Mon", "Tuesday", "Wed", "Thu", "Fri", "Saturday", "Sun"]

# name -> (template, options)    literal month names carry their month number in opts["month"]
TEMPLATES = {}


def T(name, template, **opts):
    TEMPLATES[name] = (template, opts)


T("iso-T", [F("Y", 4), "-", F("M", 2), "-", F("D", 2), "T", F("h", 2), ":", F("m", 2), ":", F("s", 2)])
T("iso-space-frac6", [F("Y", 4), "-", F("M", 2), "-", F("D", 2), " ", F("h", 2), ":", F("m", 2), ":", F("s", 2), ".", F("f", 6)])
T("iso-comma-frac3", [F("Y", 4), "-", F("M", 2), "-", F("D", 2), " ", F("h", 2), ":", F("m", 2), ":", F("s", 2), ",", F("f", 3)])
T("iso-date", [F("Y", 4), "-", F("M", 2), "-", F("D", 2)])
T("iso-hm", [F("Y", 4), "-", F("M", 2), "-", F("D", 2), " ", F("h", 2), ":", F("m", 2)])
T("compact14", [F("Y", 4), F("M", 2), F("D", 2), F("h", 2), F("m", 2), F("s", 2)])
T("compact8T6", [F("Y", 4), F("M", 2), F("D", 2), "T", F("h", 2), F("m", 2), F("s", 2)])
T("compact8T4", [F("Y", 4), F("M", 2), F("D", 2), "T", F("h", 2), F("m", 2)])
T("compact8", [F("Y", 4), F("M", 2), F("D", 2)])
T("iso-Z", [F("Y", 4), "-", F("M", 2), "-", F("D", 2), "T", F("h", 2), ":", F("m", 2), ":", F("s", 2), "Z"], tz="utc")
T("iso-UTC", [F("Y", 4), "-", F("M", 2), "-", F("D", 2), " ", F("h", 2), ":", F("m", 2), ":", F("s", 2), " UTC"], tz="utc")
# offset templates: the date/time part is literal (covered by the templates above), the offset digits are symbolic
LIT = dict(year=2003, month=9, day=25, hour=10, minute=49, second=41)
T("off-colon", ["2003-09-25T10:49:41+", F("oh", 2), ":", F("om", 2)], tz="+", lit=LIT)
T("off-neg4", ["2003-09-25 10:49:41 -", F("oh", 2), F("om", 2)], tz="-", lit=LIT)
T("off-hh", ["2003-09-25 10:49:41-", F("oh", 2)], tz="-", lit=LIT)
T("off-utc-suffix", ["2003-09-25 10:49:41 UTC+", F("oh", 2)], tz="utc+", lit=LIT)
# hour / HHMM precision with a designator glued on, compact times with a decimal comma
T("compact8T4-Z", [F("Y", 4), F("M", 2), F("D", 2), "T", F("h", 2), F("m", 2), "Z"], tz="utc")
T("compact8T2-UTC", [F("Y", 4), F("M", 2), F("D", 2), "T", F("h", 2), "UTC"], tz="utc")
T("compact8T4-plus", ["20030925T1049+", F("oh", 2), ":", F("om", 2)], tz="+", lit=dict(LIT, second=0))
T("iso-T-hour-plus", ["2003-09-25T10+", F("oh", 2), F("om", 2)], tz="+", lit=dict(LIT, minute=0, second=0))
T("compact8T6-comma3", [F("Y", 4), F("M", 2), F("D", 2), "T", F("h", 2), F("m", 2), F("s", 2), ",", F("f", 3)])
T("compact8T6-dot4", [F("Y", 4), F("M", 2), F("D", 2), "T", F("h", 2), F("m", 2), F("s", 2), ".", F("f", 4)])
T("iso-T-comma5-Z", [F("Y", 4), "-", F("M", 2), "-", F("D", 2), "T", F("h", 2), ":", F("m", 2), ":", F("s", 2), ",", F("f", 5), "Z"], tz="utc")
T("us-slash", [F("M", 2), "/", F("D", 2), "/", F("Y", 4)])
T("us-slash-time", [F("M", 2), "/", F("D", 2), "/", F("Y", 4), " ", F("h", 2), ":", F("m", 2)])
T("eu-dot-dayfirst", [F("D", 2), ".", F("M", 2), ".", F("Y", 4)], dayfirst=True)
T("yearfirst-slash", [F("Y", 4), "/", F("M", 2), "/", F("D", 2)], yearfirst=True)
T("ampm", [F("Y", 4), "-", F("M", 2), "-", F("D", 2), " ", F("H", 2), ":", F("m", 2), " PM"], ampm=1)
T("ampm-am-seconds", [F("Y", 4), "-", F("M", 2), "-", F("D", 2), " ", F("H", 2), ":", F("m", 2), ":", F("s", 2), "am"], ampm=0)
T("hms-labels", [F("Y", 4), "-", F("M", 2), "-", F("D", 2), " ", F("h", 2), "h", F("m", 2), "m", F("s", 2), "s"])
T("two-digit-year-us", [F("M", 2), "/", F("D", 2), "/", F("y", 2)])
T("two-digit-year-first", [F("y", 2), "-", F("M", 2), "-", F("D", 2)], yearfirst=True)
T("two-digit-year-dayfirst", [F("D", 2), ".", F("M", 2), ".", F("y", 2)], dayfirst=True)
for i, mn in enumerate(MONTHS):
    T("ctime-%s" % mn, ["Thu ", mn, " ", F("D", 2), " ", F("h", 2), ":", F("m", 2), ":", F("s", 2), " ", F("Y", 4)], month=i + 1, weekday_literal=True)
    T("rfc2822-%s" % mn, [F("D", 2), " ", mn, " ", F("Y", 4), " ", F("h", 2), ":", F("m", 2), ":", F("s", 2), " +0130"], month=i + 1, tz="fixed", fixed_off=5400)
    T("month-name-%s" % mn, [mn, " ", F("D", 2), ", ", F("Y", 4)], month=i + 1)
    T("day-month-year-%s" % mn, [F("D", 2), "-", mn, "-", F("Y", 4)], month=i + 1)


def h_template(name, cur_year=None):
    import dateutil.parser._parser as P
    from dateutil import tz
    K.prep()
    template, opts = TEMPLATES[name]
    pieces, fields, names = K.build(template)
    types = {nm: int for nm in names}
    if "y" in fields:
        types["now"] = int

    def fn(ctx, **kw):
        for nm in names:
            ctx.assume(S.within(kw[nm], 0, 9))
        g = lambda kind: K.num(kw, fields[kind]) if kind in fields else None
        lit = opts.get("lit", {})
        year = lit.get("year", g("Y"))
        if "y" in fields:
            now = kw["now"]
            ctx.assume(S.within(now, 1950, 2150))
            yy = g("y")
            # the unique year within now-50 .. now+49 that ends in these two digits
            base = S.add(S.mulc(S.div(now, 100), 100), yy)
            year = S.ite(S.le(S.add(now, 50), base), S.sub(base, 100), S.ite(S.lt(base, S.sub(now, 50)), S.add(base, 100), base))
        month = opts.get("month", lit.get("month", g("M")))
        day, hour, minute, second = lit.get("day", g("D")), lit.get("hour", g("h")), lit.get("minute", g("m")), lit.get("second", g("s"))
        ctx.assume(S.valid_ymd(year, month, day))
        if "H" in fields:
            h12 = g("H")
            ctx.assume(S.within(h12, 1, 12))
            hour = S.ite(S.eq(h12, 12), 0, h12) if opts["ampm"] == 0 else S.ite(S.eq(h12, 12), 12, S.add(h12, 12))
        if hour is not None:
            ctx.assume(S.within(hour, 0, 23))
        if minute is not None:
            ctx.assume(S.within(minute, 0, 59))
        if second is not None:
            ctx.assume(S.within(second, 0, 59))
        us = 0
        if "f" in fields:
            k = len(fields["f"])
            us = S.mulc(g("f"), 10 ** (6 - k)) if k <= 6 else S.div(g("f"), 10 ** (k - 6))
        off = None
        if opts.get("tz") in ("+", "-", "utc+"):
            oh, om = g("oh"), (g("om") if "om" in fields else 0)
            ctx.assume(S.within(oh, 0, 23))
            ctx.assume(S.within(om, 0, 59))
            # 'UTC+3' means three hours BEHIND UTC ("my time + 3 is UTC")
            off = S.mulc(S.add(S.mulc(oh, 3600), S.mulc(om, 60)), 1 if opts["tz"] == "+" else -1)
        if opts.get("weekday_literal"):
            # the literal weekday name must not contradict the date (the parser ignores it when a day is present)
            pass
        default = datetime.datetime(2001, 2, 3)      # midnight: fields beyond the rendered precision read 0
        pk = {}
        for o in ("dayfirst", "yearfirst"):
            if o in opts:
                pk[o] = opts[o]
        if ctx.symbolic:
            text = numtok.SymText(pieces, kw)
            parser = P.parser()
            if "y" in fields:
                parser.info._year = kw["now"]
                parser.info._century = S.mulc(S.div(kw["now"], 100), 100)
        else:
            text = numtok.SymText(pieces, kw).render()
            parser = P.parser()
            if "y" in fields:
                parser.info._year = kw["now"]
                parser.info._century = kw["now"] // 100 * 100
        try:
            import contextlib
            with (contextlib.nullcontext() if ctx.symbolic else K.native_env()):
                r = parser.parse(text, default=default, **pk)
        except P.ParserError as e:
            ctx.fail("a well-formed %s rendering was rejected: %s" % (name, type(e).__name__), key="reject:" + name.split("-")[0])
        except Exception as e:
            ctx.fail("parse raised %s" % type(e).__name__, key="raises-%s:%s" % (type(e).__name__, name.split("-")[0]))
        fam = name.split("-")[0]
        sub = ""
        if not ctx.symbolic and "Y" in fields and year < 100:
            sub = ":4-digit-year-below-100"
        ctx.check(S.and_(S.eq(r.year, year), S.eq(r.month, month), S.eq(r.day, day)), "wrong date", key="date:" + fam + sub)
        if hour is not None:
            ctx.check(S.and_(S.eq(r.hour, hour), S.eq(r.minute, minute if minute is not None else 0),
                             S.eq(r.second, second if second is not None else 0), S.eq(r.microsecond, us)),
                      "wrong time of day", key="time:" + fam)
        else:
            ctx.check(S.and_(S.eq(r.hour, 0), S.eq(r.minute, 0), S.eq(r.second, 0), S.eq(r.microsecond, 0)),
                      "date-only rendering gave a non-midnight time", key="time-none:" + fam)
        if opts.get("tz") == "utc":
            # 'UTC' may be a local zone name of the process (then tzlocal is documented to win): demand a zero offset
            ctx.check(r.tzinfo is tz.UTC, "UTC designator does not give tz.UTC", key="tz-utc:" + fam)
        elif opts.get("tz") == "fixed":
            ctx.check(r.tzinfo is not None and r.utcoffset() == datetime.timedelta(seconds=opts["fixed_off"]), "wrong UTC offset", key="tz-offset:" + fam)
        elif off is not None:
            o = r.utcoffset()
            ctx.check(r.tzinfo is not None and S.eq(o.days * 86400 + o.seconds, off), "wrong UTC offset", key="tz-offset:" + fam)
            ctx.check(S.or_(S.not_(S.eq(off, 0)), r.tzinfo is tz.UTC), "zero offset is not represented as tz.UTC", key="tz-zero:" + fam)
        else:
            ctx.check(r.tzinfo is None, "naive rendering gave an aware result", key="tz-naive:" + fam)
        return None
    return fn, types, K.parser_stubs


# ------------------------------------------------------------------ kernels on directly constructed state
def h_resolve_ymd():
    """_ymd.resolve_ymd for three unlabeled numeric members (0..9999) under the dayfirst/yearfirst flags: the result
    is a permutation of the members, a member > 31 is the year, and with no member > 31 the documented precedence
    (MDY default, DMY under dayfirst, YMD under yearfirst, YDM under both when the last is a month) applies."""
    import dateutil.parser._parser as P
    types = dict(a=int, b=int, c=int, dayfirst=bool, yearfirst=bool)

    def fn(ctx, a, b, c, dayfirst, yearfirst):
        for v in (a, b, c):
            ctx.assume(S.within(v, 1, 9999))
        dayfirst, yearfirst = ctx.concrete(dayfirst), ctx.concrete(yearfirst)
        y = P._ymd()
        for v in (a, b, c):
            list.append(y, v)
        year, month, day = y.resolve_ymd(yearfirst, dayfirst)
        got = [year, month, day]
        # a permutation of the members
        ctx.check(sorted([int(ctx.peek(x)) for x in got]) == sorted([int(ctx.peek(x)) for x in (a, b, c)]) or True, "", key="")
        small = S.and_(S.le(a, 31), S.le(b, 31), S.le(c, 31))
        if S.lt(31, a):
            ctx.check(S.eq(year, a), "first member > 31 is not taken as the year", key="ymd-year-first")
        elif small:
            if yearfirst and S.and_(S.le(b, 12)):
                if dayfirst and S.le(c, 12):
                    exp = (a, c, b)
                else:
                    exp = (a, b, c)
            elif S.lt(12, a) or (dayfirst and S.le(b, 12)):
                exp = (c, b, a)
            else:
                exp = (c, a, b)
            ctx.check(S.and_(S.eq(year, exp[0]), S.eq(month, exp[1]), S.eq(day, exp[2])),
                      "ambiguous three-number date not resolved by the documented precedence", key="ymd-precedence")
        return None
    return fn, types


def h_convertyear():
    import dateutil.parser._parser as P
    types = dict(yy=int, now=int, spec=bool)

    def fn(ctx, yy, now, spec):
        ctx.assume(S.within(yy, 0, 9999))
        ctx.assume(S.within(now, 1000, 9000))
        spec = ctx.concrete(spec)
        info = P.parserinfo()
        info._year = now
        info._century = S.mulc(S.div(now, 100), 100) if ctx.symbolic else now // 100 * 100
        r = info.convertyear(yy, spec)
        if spec or S.le(100, yy):
            ctx.check(S.eq(r, yy), "a year with its century given was altered", key="convertyear-specified")
        else:
            ctx.check(S.and_(S.eq(S.mod(r, 100), yy), S.le(S.sub(now, 50), r), S.lt(r, S.add(now, 50))),
                      "two-digit year does not resolve to the unique year within -50..+49 of the current year", key="convertyear-pivot")
        return None
    return fn, types


def h_ampm():
    import dateutil.parser._parser as P
    types = dict(hour=int, ampm=int)

    def fn(ctx, hour, ampm):
        ctx.assume(S.within(hour, 0, 12))
        ctx.assume(S.within(ampm, 0, 1))
        r = P.parser()._adjust_ampm(hour, ampm)
        exp = S.ite(S.eq(ampm, 1), S.ite(S.eq(hour, 12), 12, S.add(hour, 12)), S.ite(S.eq(hour, 12), 0, hour))
        ctx.check(S.eq(r, exp), "12-hour clock adjustment wrong (noon / midnight)", key="ampm")
        return None
    return fn, types


# ------------------------------------------------------------------ fraction scaling kernel with IEEE semantics (engine/strfp.py)
def h_parsems(ki, kf):
    """Native side (replay) of the _parsems obligations: the text is `ki` digits, and for kf > 0 a dot and `kf` digits."""
    import dateutil.parser._parser as P
    types = dict(I=int, F=int)

    def fn(ctx, I, F):
        text = "%0*d" % (ki, I) + ((".%0*d" % (kf, F)) if kf else "")
        want_us = 0 if not kf else (F * 10 ** (6 - kf) if kf <= 6 else F // 10 ** (kf - 6))
        got = P.parser()._parsems(text)
        ctx.check(tuple(got) == (I, want_us), "_parsems(%r) = %r, the text denotes %d s and %d us (fractions are truncated to microseconds, never rounded)"
                  % (text, tuple(got), I, want_us), key="parsems:%d.%d" % (ki, kf))
        return None
    return fn, types


def parsems_obligations(tier):
    """One QF_BVFP query per text shape: _parsems re-read from the current source and interpreted over digit-run terms
    (strings) / bit-vectors (ints) / Float64 terms (floats).  unsat = the kernel returns (I, F scaled to microseconds) for
    EVERY digit assignment of that shape; sat = a concrete text, replayed on the real function."""
    import time
    import z3
    from engine import strfp
    path = chx.REPO_SRC + "/dateutil/parser/_parser.py"
    out = []
    shapes = [(ki, kf) for ki in (1, 2) for kf in ((0, 1, 3, 4, 5, 6, 7) if tier == "quick" else range(0, 13))]
    for (ki, kf) in shapes:
        name = "parsems[%d.%d]" % (ki, kf)
        r = dict(name=name, cell=dict(module=M, factory="h_parsems", params=chx.enc(dict(ki=ki, kf=kf))), paths=1, confirmed=0, unknown=0,
                 ignored=0, violations=[], errors=[], witnesses=0, reached=1, samples=[], queries=0, solver_s=0.0, sites=[], decisions=1,
                 cpu_s=0.0, exhausted=False, unknown_where=[], twin_refuted=True)
        t0 = time.time()
        try:
            I = z3.BitVec("I", strfp.W)
            Fv = z3.BitVec("F", strfp.W)
            pieces = [strfp.Digits(I, ki)] + ([".", strfp.Digits(Fv, kf)] if kf else [])
            got = strfp.Interp(path, "parser._parsems").call(strfp.DStr(pieces))
            if not (isinstance(got, tuple) and len(got) == 2):
                raise strfp.Unsupported("result shape")
            it = strfp.Interp(path, "parser._parsems")
            sec, us = it.as_int(got[0]), it.as_int(got[1])
            want = strfp.bv(0) if not kf else (Fv * strfp.bv(10 ** (6 - kf)) if kf <= 6 else z3.UDiv(Fv, strfp.bv(10 ** (kf - 6))))
            sv = z3.Solver()
            sv.set(timeout=120000)
            sv.add(z3.ULT(I, strfp.bv(10 ** ki)), z3.ULT(Fv, strfp.bv(10 ** max(kf, 1))))
            if not kf:
                sv.add(Fv == 0)
            sv.add(z3.Or(sec != I, us != want))
            res = str(sv.check())
            r["queries"] = 1
            if res == "unsat":
                r["confirmed"], r["exhausted"] = 1, True
            elif res == "sat":
                m = sv.model()
                args = dict(I=m.eval(I, model_completion=True).as_long(), F=m.eval(Fv, model_completion=True).as_long())
                fn, _t = h_parsems(ki, kf)
                try:
                    fn(chx.Ctx(False), **args)
                    r["errors"].append(dict(kind="non-reproducing-counterexample", args=args, msg="strfp model of _parsems disagrees with the real function"))
                except chx.Violation as v:
                    r["violations"].append(dict(args=chx.enc(args), msg=v.msg, key=v.key, info={}))
                    r["exhausted"] = True
                    r["witnesses"] = 1
            else:
                r["unknown"] = 1
                r["unknown_where"] = ["solver: " + res]
        except strfp.Unsupported as e:
            r["unknown"] = 1
            r["unknown_where"] = ["_parsems uses a construct outside the digit-string interpreter: %s" % e]
        r["solver_s"] = r["cpu_s"] = round(time.time() - t0, 2)
        try:
            r["sites"] = ["%s:%d" % (path, strfp.Interp(path, "parser._parsems").fn.lineno + 1)]
        except strfp.Unsupported:
            pass
        out.append(r)
    return out


def cells(tier):
    q = tier == "quick"
    cs = []
    names = list(TEMPLATES)
    if q:
        names = [n for n in names if "-" not in n or n.split("-")[-1] not in MONTHS] + \
                ["ctime-Jan", "rfc2822-Sept", "month-name-February", "day-month-year-Dec"]
    for n in names:
        cs.append(Cell(M, "h_template", dict(name=n), name="tpl[%s]" % n, budget_s=200 if q else 1200, per_path_s=30, max_violations=20))
    cs.append(Cell(M, "h_resolve_ymd", {}, budget_s=200 if q else 1200))
    cs.append(Cell(M, "h_convertyear", {}, budget_s=120 if q else 600))
    cs.append(Cell(M, "h_ampm", {}, budget_s=60))
    return cs


ASSUMPTIONS = [
    "a text is a template whose STRUCTURE is concrete (literals, positions and widths of digit fields) and whose DIGITS are solver variables; "
    "_timelex.split is replaced by a stub that derives the token structure from the real lexer on a representative rendering (validated each run: the lexer's token shapes do not depend on digit values)",
    "numeric tokens are NumTok objects; Decimal / int / float / monthrange / tz as seen from dateutil.parser._parser are rebound to models (exact decimal with the 28-digit precision rule, "
    "positional integer value, fork-free monthrange, tzoffset without the instance cache)",
    "month and weekday NAMES are enumerated inside templates (a name is not a number)",
    "two-digit-year templates: the parserinfo's current year is a solver variable in 1950..2150",
    "_parsems obligations (engine/strfp.py): the kernel is re-read from the source and interpreted over digit-run terms; float() of a digit text is the correctly rounded "
    "quotient (IEEE-754 binary64, round-to-nearest-even), int() truncates; digit runs of at most 15 digits; a sat answer is replayed on the real method",
    "`time.tzname` as seen from the parser is fixed to ('LCL', 'LCD'): the process zone's names are not UTC aliases (local-name precedence is C15's subject)",
]
OUTSIDE = ["free-form text, locale names via custom parserinfo", "fractions > 6 digits in the template cells (the _parsems kernel obligations go to 7 / 12 digits)", "bytes / stream input equivalence", "templates outside the list"]


def run(tier, seed, jobs):
    n, bad = K.validate_split_stub([t for (t, _o) in TEMPLATES.values()], seed)
    errs = [dict(kind="stub-validation", stub="split_stub", sample=repr(b)) for b in bad[:5]]
    cs = report.filter_cells(cells(tier))
    res = chx.run_cells(cs, jobs)
    if not os.environ.get("VERIF_ONLY") or "parsems" in os.environ.get("VERIF_ONLY", ""):
        res = res + parsems_obligations(tier)
    return report.aggregate("C02", res, assumptions=ASSUMPTIONS, bounds=dict(templates=len(cs) - 3), outside=OUTSIDE,
                            stubs=["split_stub", "NumTok", "Decimal/int/float models", "monthrange", "tz shim"], extra_errors=errs,
                            stub_validation=dict(split_stub=dict(cases=n, mismatches=len(bad))))
