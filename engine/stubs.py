"""Environment models used by E1 harnesses.  Every model here is part of the trusted base of the
claims that use it and has a `validate_*` routine run on every check."""
import builtins
import contextlib
import itertools
import sys

import z3


def _ch():
    from crosshair.libimpl import builtinslib as bl
    from crosshair.tracers import NoTracing, ResumedTracing, is_tracing
    return bl, NoTracing, ResumedTracing, is_tracing


# ---------------------------------------------------------------------------
# symbolic byte strings of concrete length

def sym_bytes(ints, ctx):
    """ints: list of (symbolic) ints 0..255 -> bytes-like usable by the code under test."""
    if not ctx.symbolic:
        return bytes(int(i) for i in ints)
    bl, NoTracing, _R, _t = _ch()
    with NoTracing():
        return bl.SymbolicBytes(list(ints))


# ---------------------------------------------------------------------------
# int(<bytes>) -- CPython grammar for base 10 as a DFA over z3 terms

def _smt_of(v):
    """z3 Int term of a python int / SymbolicInt."""
    if isinstance(v, int):
        return z3.IntVal(v)
    return v.var


def int_dfa(byte_terms):
    """(ok, value) z3 terms for int(bytes) base 10: optional ASCII whitespace, optional sign, digits with
    single underscores between digits, optional trailing whitespace.  States: L leading ws, S after sign,
    D after digit, U after underscore, T trailing ws."""
    T_, F_ = z3.BoolVal(True), z3.BoolVal(False)
    L, S, D, U, T = T_, F_, F_, F_, F_
    neg = F_
    val = z3.IntVal(0)
    for c in byte_terms:
        isd = z3.And(c >= 48, c <= 57)
        isw = z3.Or(z3.And(c >= 9, c <= 13), c == 32)
        nL = z3.And(L, isw)
        nS = z3.And(L, z3.Or(c == 43, c == 45))
        nD = z3.And(z3.Or(L, S, D, U), isd)
        nU = z3.And(D, c == 95)
        nT = z3.And(z3.Or(D, T), isw)
        neg = z3.If(z3.And(L, c == 45), T_, neg)
        val = z3.If(nD, val * 10 + (c - 48), val)
        L, S, D, U, T = nL, nS, nD, nU, nT
    ok = z3.Or(D, T)
    return z3.simplify(ok), z3.simplify(z3.If(neg, -val, val))


def make_int_model():
    """Replacement for the builtin `int` as seen from a module: models int(<SymbolicBytes>) with the DFA
    (one fork: valid / ValueError); everything else goes to the real int."""
    bl, NoTracing, ResumedTracing, is_tracing = _ch()
    real_int = builtins.int

    def model_int(*a, **kw):
        if len(a) == 1 and not kw:
            x = a[0]
            with NoTracing():
                sym = type(x) is bl.SymbolicBytes
                if sym:
                    terms = [_smt_of(e) for e in x.inner]
                    if all(z3.is_int_value(t) for t in terms):
                        sym = False
                        conc = bytes(t.as_long() for t in terms)
                    else:
                        # fast path (one fork, usually forced): all ASCII digits -> plain positional value
                        alld = bl.SymbolicBool(z3.And(*[z3.And(t >= 48, t <= 57) for t in terms])) if terms else False
                        clean = bl.SymbolicInt(z3.Sum([(t - 48) * (10 ** (len(terms) - 1 - i)) for i, t in enumerate(terms)])) if terms else 0
                        ok, val = int_dfa(terms)
                        okb = bl.SymbolicBool(ok)
                        res = bl.SymbolicInt(val)
            if sym:
                if alld:
                    return clean
                if not okb:
                    raise ValueError("invalid literal for int() with base 10 (model)")
                return res
            if type(x) is bl.SymbolicBytes:
                return real_int(conc)
        return real_int(*a, **kw)
    model_int.__name__ = "int"
    return model_int


def validate_int_model(max_len=2, extra_len=(3, 4)):
    """Differential test of int_dfa against CPython's int() -- exhaustive for all byte strings of length
    <= max_len, class-representative exhaustive for extra_len.  Returns (#cases, mismatches)."""
    reps = [0, 9, 13, 32, 43, 45, 48, 53, 57, 95, 65, 46, 11, 160, 255]
    n, bad = 0, []

    def one(bs):
        nonlocal n
        n += 1
        ok, val = int_dfa([z3.IntVal(b) for b in bs])
        ok = z3.is_true(ok)
        try:
            exp = int(bytes(bs))
            eok = True
        except ValueError:
            exp, eok = None, False
        if ok != eok or (ok and val.as_long() != exp):
            bad.append((bytes(bs), ok, eok))
    for ln in range(0, max_len + 1):
        for bs in itertools.product(range(256), repeat=ln):
            one(bs)
    for ln in extra_len:
        for bs in itertools.product(reps, repeat=ln):
            one(bs)
    return n, bad


_PATCHED_DATE = False
_CUM = (0, 31, 59, 90, 120, 151, 181, 212, 243, 273, 304, 334)


def ord2ymd_forkfree(o):
    from engine import sym
    return sym.ord2ymd(o)


def patch_date_decompose():
    """Replace CrossHair's bridge decomposition of ordinal-backed dates (fresh y/m/d tied to the ordinal by a
    nonlinear equation -- the solver has to invert the calendar) with the fork-free forward decomposition."""
    global _PATCHED_DATE
    if _PATCHED_DATE:
        return
    _PATCHED_DATE = True
    from crosshair.libimpl import datetimelib as dl
    from crosshair.tracers import NoTracing

    from crosshair.statespace import context_statespace

    def memo():
        space = context_statespace()
        m = getattr(space, "_verif_ymd_memo", None)
        if m is None:
            m = space._verif_ymd_memo = {}
        return m

    def _anchor_of(d):
        ymd = d._ymd
        if ymd is not None:
            return ymd[0]
        return getattr(d, "_verif_anchor", None)

    def _decompose(self):
        if self._ymd is None:
            ordinal = self._ord
            with NoTracing():
                concrete = isinstance(ordinal, int)
                anchor = getattr(self, "_verif_anchor", None)
            if concrete:
                self._ymd = dl._ord2ymd(ordinal)
            else:
                from engine import sym as _sym
                y = None
                if anchor is not None:
                    # the date was produced by date +/- timedelta from a date whose year is `anchor`: try the
                    # neighbouring years first (a few cheap forks, each decided on the forward map only)
                    for k in (0, 1, -1):
                        yk = anchor + k
                        if _sym.and_(_sym.lt(_sym.days_before_year(yk), ordinal),
                                     _sym.le(ordinal, _sym.days_before_year(yk + 1))):
                            y = yk
                            break
                if y is not None:
                    m, d = _sym.month_day_of(y, ordinal)
                else:
                    y, m, d = _sym.ord2ymd_fresh(ordinal)
                with NoTracing():
                    # remember which ordinal this field triple came from: a date rebuilt from exactly these
                    # field objects (date(*components), .replace()) is the same day -- no re-validation,
                    # no re-composition (the round trip ymd2ord(ord2ymd(o)) == o is what z3 cannot prove)
                    memo()[(id(y), id(m), id(d))] = (ordinal, (y, m, d))
                self._ymd = (y, m, d)
        return self._ymd
    dl.date._decompose = _decompose

    orig_check = dl._check_date_fields

    def _check_date_fields(year, month, day):
        with NoTracing():
            hit = memo().get((id(year), id(month), id(day)))
        if hit is not None:
            return year, month, day
        return orig_check(year, month, day)
    dl._check_date_fields = _check_date_fields

    orig_init = dl.date.__init__

    def date_init(self, year, month=None, day=None):
        orig_init(self, year, month, day)
        with NoTracing():
            hit = memo().get((id(year), id(month), id(day)))
            if hit is not None:
                self._ord = hit[0]
    dl.date.__init__ = date_init

    def fromordinal(cls, n):
        return dl._date_from_ordinal(n)
    dl.date.fromordinal = classmethod(fromordinal)

    orig_date_add = dl.date.__add__

    def date_add(self, other):
        r = orig_date_add(self, other)
        with NoTracing():
            if isinstance(r, dl.date) and r._ymd is None:
                a = _anchor_of(self)
                if a is not None:
                    r._verif_anchor = a
        return r
    dl.date.__add__ = date_add
    dl.date.__radd__ = date_add

    orig_dt_add = dl.datetime.__add__

    def dt_add(self, other):
        r = orig_dt_add(self, other)
        with NoTracing():
            if isinstance(r, dl.date) and r._ymd is None:
                a = _anchor_of(self)
                if a is not None:
                    r._verif_anchor = a
        return r
    dl.datetime.__add__ = dt_add
    dl.datetime.__radd__ = dt_add

    # CrossHair writes leap-year terms as products of ITEs ((y%4==0) * (1 - (y%100==0)*(y%400!=0))), which z3
    # treats as nonlinear arithmetic (-> `unknown`).  Same functions, and/or/ite only:
    from engine import sym as _S
    dl._is_leap_int = lambda year: _S.b2i(_S.is_leap(year))
    dl._is_leap = lambda year: _S.is_leap(year)
    dl._days_before_year = _S.days_before_year
    dl._days_before_month = lambda year, month: _S.days_before_month(year, month)
    dl._days_in_month = lambda year, month: _S.days_in_month(year, month)
    dl._ymd2ord = lambda year, month, day: _S.ordinal(year, month, day)

    def isocalendar(self):
        # CrossHair's model recomputes `today` with _ymd2ord(year, month, day) even for an ordinal-backed
        # date (compose o decompose); use the ordinal it already has.  Same algorithm otherwise.
        year = self._year
        week1monday = dl._isoweek1monday(year)
        today = self.toordinal()
        week, day = divmod(today - week1monday, 7)
        if week < 0:
            year -= 1
            week1monday = dl._isoweek1monday(year)
            week, day = divmod(today - week1monday, 7)
        elif week >= 52:
            if today >= dl._isoweek1monday(year + 1):
                year += 1
                week = 0
        return dl._IsoCalendarDate(year, week + 1, day + 1)
    dl.date.isocalendar = isocalendar


def validate_ord2ymd(samples):
    import datetime
    bad = []
    for o in samples:
        d = datetime.date.fromordinal(o)
        y, m, dd = ord2ymd_forkfree(o)
        if (int(y), int(m), int(dd)) != (d.year, d.month, d.day):
            bad.append(o)
    return len(samples), bad


_PATCHED_FORMAT = False


def patch_format_elision():
    """Formatting (str.format / format() / f-strings) of a symbolic number realises it and forks once per
    value; after this (process-wide, cells run in their own processes) a formatted symbolic number renders
    as '<sym>'.  Only for harnesses where formatted strings are messages (exception texts), never where the
    text is the subject."""
    global _PATCHED_FORMAT
    if _PATCHED_FORMAT:
        return
    _PATCHED_FORMAT = True
    from crosshair import core
    from crosshair.libimpl import builtinslib as bl
    from crosshair.tracers import NoTracing
    if format not in core._PATCH_REGISTRATIONS:
        from crosshair.core_and_libs import _make_registrations
        _make_registrations()
    orig = core._PATCH_REGISTRATIONS[format]

    def _format(obj, format_spec=""):
        with NoTracing():
            sym = isinstance(obj, bl.SymbolicNumberAble)
        if sym:
            return "<sym>"
        return orig(obj, format_spec)
    core._PATCH_REGISTRATIONS[format] = _format
    orig_repr = core._PATCH_REGISTRATIONS[repr]

    def _repr(obj):
        with NoTracing():
            sym = isinstance(obj, (bl.SymbolicNumberAble, bl.AnySymbolicStr, bl.BytesLike))
        if sym:
            return "<sym>"
        return orig_repr(obj)
    core._PATCH_REGISTRATIONS[repr] = _repr
    bl.SymbolicNumberAble.__format__ = lambda self, fmt: "<sym>"


_PATCHED_BYTES = False


def patch_symbolic_bytes():
    """CrossHair's bytes model realises the whole string for isdigit(); replace with the fork-free definition
    (non-empty and every byte in 0x30..0x39)."""
    global _PATCHED_BYTES
    if _PATCHED_BYTES:
        return
    _PATCHED_BYTES = True
    bl, NoTracing, ResumedTracing, is_tracing = _ch()

    def isdigit(self):
        with NoTracing():
            inner = list(self.inner) if isinstance(self.inner, (list, tuple)) else None
        if inner is None:
            return bytes(self.__ch_realize__()).isdigit()
        if len(inner) == 0:
            return False
        ok = True
        for b in inner:
            ok = ok & ((b >= 48) & (b <= 57))
        return ok
    bl.SymbolicBytes.isdigit = isdigit

    # `<symbolic bytes> in b"literal"` reaches bytes.__contains__ at C level, which realises the needle
    # through the buffer protocol.  Swap the literal for a haystack object with a fork-free __contains__.
    from crosshair import opcode_intercept as oi
    from crosshair.tracers import frame_stack_read, frame_stack_write
    from engine import sym as S

    class _Haystack(object):
        def __init__(self, data):
            self.data = data

        def __contains__(self, item):
            with NoTracing():
                inner = list(item.inner) if isinstance(item, bl.SymbolicBytes) and isinstance(item.inner, (list, tuple)) else None
            if inner is None:
                return bytes(item) in self.data
            n = len(inner)
            if n == 0:
                return True
            wins = []
            for i in range(len(self.data) - n + 1):
                wins.append(S.and_(*[S.eq(inner[j], self.data[i + j]) for j in range(n)]))
            return S.or_(*wins) if wins else False

    orig_trace = oi.ContainmentInterceptor.trace_op

    def trace_op(self, frame, codeobj, codenum):
        item = frame_stack_read(frame, -2)
        if isinstance(item, bl.SymbolicBytes) and type(frame_stack_read(frame, -1)) is bytes:
            frame_stack_write(frame, -1, _Haystack(frame_stack_read(frame, -1)))
            return
        return orig_trace(self, frame, codeobj, codenum)
    oi.ContainmentInterceptor.trace_op = trace_op


@contextlib.contextmanager
def rebind(module_name, **names):
    """Temporarily set module globals (e.g. `int`) -- no source edit."""
    mod = sys.modules[module_name]
    missing = object()
    old = {k: mod.__dict__.get(k, missing) for k in names}
    mod.__dict__.update(names)
    try:
        yield
    finally:
        for k, v in old.items():
            if v is missing:
                mod.__dict__.pop(k, None)
            else:
                mod.__dict__[k] = v


# ---------------------------------------------------------------------------
# `datetime` module shim for code that calls C classmethods of the real classes (date.fromordinal,
# datetime.combine, datetime.fromordinal): CrossHair does not intercept those, and the real ones reject /
# realise its model objects.  The shim forwards construction to CrossHair's models and implements the
# classmethods in their lazy ordinal-backed form.

def make_datetime_shim(anchor_year=None):
    import datetime as real
    from crosshair.libimpl import datetimelib as dl
    from crosshair.tracers import NoTracing

    def _anchor(d):
        ymd = getattr(d, "_ymd", None)
        if ymd is not None:
            return ymd[0]
        return getattr(d, "_verif_anchor", None)

    class _Meta(type):
        def __instancecheck__(cls, obj):
            return isinstance(obj, cls._real)

        def __call__(cls, *a, **k):
            return cls._model(*a, **k)

        def __getattr__(cls, name):
            return getattr(cls._real, name)

    class date(metaclass=_Meta):
        _real = real.date
        _model = dl.date

        @staticmethod
        def fromordinal(n):
            d = dl._date_from_ordinal(n)
            if anchor_year is not None:
                d._verif_anchor = anchor_year
            return d

    class datetime(metaclass=_Meta):
        _real = real.datetime
        _model = dl.datetime

        @staticmethod
        def fromordinal(n):
            d = dl._datetime_from_ordinal(n, 0, 0, 0, 0, None)
            if anchor_year is not None:
                d._verif_anchor = anchor_year
            return d

        @staticmethod
        def combine(d, t, tzinfo=True):
            tz = t.tzinfo if tzinfo is True else tzinfo
            if getattr(d, "_ymd", None) is not None:
                y, m, dd = d._ymd
                r = dl._datetime_skip_construct(y, m, dd, t.hour, t.minute, t.second, t.microsecond, tz)
            else:
                r = dl._datetime_from_ordinal(d.toordinal(), t.hour, t.minute, t.second, t.microsecond, tz)
                a = _anchor(d)
                if a is not None:
                    r._verif_anchor = a
            r._fold = 0
            r._hashcode = -1
            return r

    class time(metaclass=_Meta):
        _real = real.time
        _model = dl.time

    class timedelta(metaclass=_Meta):
        _real = real.timedelta
        _model = dl.timedelta

    class _Shim(object):
        pass
    sh = _Shim()
    sh.date, sh.datetime, sh.time, sh.timedelta = date, datetime, time, timedelta
    sh.MAXYEAR, sh.MINYEAR, sh.tzinfo, sh.timezone = real.MAXYEAR, real.MINYEAR, real.tzinfo, real.timezone
    return sh
