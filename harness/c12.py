"""C12 recurrence queries agree with the listed sequence L = list(rule).

Carrier: rruleset (cached / uncached) whose members are symbolic integer instants (the query code of rrulebase only
compares and iterates), with an optional earlier query to vary the cache state.  Oracle: Python list semantics.
"""
import itertools

from engine import chx, report
from engine import sym as S
from engine.chx import Cell

M = "harness.c12"


def _mk(ctx, kw, n, cache):
    from dateutil.rrule import rruleset
    ts = [kw["t%d" % i] for i in range(n)]
    for t in ts:
        ctx.assume(S.within(t, 1, 1000))
    for a, b in zip(ts, ts[1:]):
        ctx.assume(S.lt(a, b))          # rdates are sorted by the set anyway; distinct increasing instants
    rs = rruleset(cache=cache)
    for t in ts:
        rs.rdate(t)
    return rs, ts


def _pre(rs, pre):
    if pre == "list":
        list(rs)
    elif pre == "count":
        rs.count()
    elif pre == "next1":
        it = iter(rs)
        next(it, None)
    elif pre == "contains":
        500 in rs


def h_index(n, cache, pre):
    types = {"t%d" % i: int for i in range(n)}
    types["i"] = int

    def fn(ctx, **kw):
        i = kw.pop("i")
        rs, L = _mk(ctx, kw, n, cache)
        ctx.assume(S.within(i, -n - 2, n + 2))
        _pre(rs, pre)
        ic = ctx.concrete(i)
        try:
            exp = ("ok", L[ic])
        except IndexError:
            exp = ("IndexError", None)
        try:
            got = ("ok", rs[ic])
        except IndexError:
            got = ("IndexError", None)
        except Exception as e:
            ctx.fail("rule[i] raised %s" % type(e).__name__, key="index-exc-%s" % type(e).__name__)
        ctx.check(got[0] == exp[0], "rule[i] raises IndexError differently from list(rule)[i]", key="index-raise")
        if got[0] == "ok":
            ctx.check(got[1] == exp[1], "rule[i] != list(rule)[i]", key="index-value")
        c = rs.count()
        ctx.check(c == n, "count() != len(list(rule))", key="count")
        return got[0]
    return fn, types


def h_slice(n, cache, pre, step_sign):
    types = {"t%d" % i: int for i in range(n)}
    types.update(a=int, b=int, c=int, an=bool, bn=bool, cn=bool)

    def fn(ctx, **kw):
        a, b, c, an, bn, cn = [kw.pop(k) for k in ("a", "b", "c", "an", "bn", "cn")]
        rs, L = _mk(ctx, kw, n, cache)
        for v in (a, b):
            ctx.assume(S.within(v, -n - 1, n + 1))
        if step_sign > 0:
            ctx.assume(S.within(c, 1, 3))
        else:
            ctx.assume(S.within(c, -3, -1))
        a, b, c = ctx.concrete(a), ctx.concrete(b), ctx.concrete(c)
        an, bn, cn = ctx.concrete(an), ctx.concrete(bn), ctx.concrete(cn)
        sl = slice(None if an else a, None if bn else b, None if cn else c)
        if cn and step_sign < 0:
            ctx.assume(False)
        _pre(rs, pre)
        exp = L[sl]
        try:
            got = rs[sl]
        except Exception as e:
            neg = (sl.start is not None and sl.start < 0) or (sl.stop is not None and sl.stop < 0)
            ctx.fail("rule[a:b:c] raised %s" % type(e).__name__,
                     key="slice-exc-%s%s" % (type(e).__name__, "-negative-bound" if neg else ""), sl=repr(sl))
        ok = len(got) == len(exp)
        if ok:
            for g, e in zip(got, exp):
                ok = ok and bool(g == e)
        kind = ""
        if not ok:
            if sl.stop == 0:
                kind = "-stop0"
            elif (sl.start is not None and sl.start < 0) or (sl.stop is not None and sl.stop < 0):
                kind = "-negative-bound"
        ctx.check(ok, "rule[a:b:c] != list(rule)[a:b:c]", key="slice-value" + kind, sl=repr(sl))
        return len(got)
    return fn, types


def h_scan(n, cache, pre, query):
    types = {"t%d" % i: int for i in range(n)}
    types.update(x=int, y=int, inc=bool, cnt=int)

    def fn(ctx, **kw):
        x, y, inc, cnt = [kw.pop(k) for k in ("x", "y", "inc", "cnt")]
        rs, L = _mk(ctx, kw, n, cache)
        ctx.assume(S.within(x, 0, 1001))
        ctx.assume(S.within(y, 0, 1001))
        ctx.assume(S.within(cnt, 0, n + 1))
        if query not in ("between",):
            ctx.assume(y == 0)
        if query != "xafter":
            ctx.assume(cnt == 0)
        inc = ctx.concrete(inc)
        _pre(rs, pre)
        if query == "contains":
            got = x in rs
            exp = S.or_(*[S.eq(x, t) for t in L]) if L else False
            ctx.check(bool(got) == bool(exp), "x in rule disagrees with x in list(rule)", key="contains")
            return bool(got)
        if query == "after":
            got = rs.after(x, inc)
            cand = [t for t in L if (t >= x if inc else t > x)]
            exp = cand[0] if cand else None
        elif query == "before":
            got = rs.before(x, inc)
            cand = [t for t in L if (t <= x if inc else t < x)]
            exp = cand[-1] if cand else None
        elif query == "between":
            got = rs.between(x, y, inc)
            exp = [t for t in L if ((x <= t <= y) if inc else (x < t < y))]
            ok = len(got) == len(exp) and all(bool(g == e) for g, e in zip(got, exp))
            ctx.check(ok, "between(a, b, inc) is not the sub-list between a and b", key="between")
            return len(got)
        else:
            cntc = ctx.concrete(cnt)
            got = list(rs.xafter(x, cntc, inc))
            exp = [t for t in L if (t >= x if inc else t > x)][:cntc]
            ok = len(got) == len(exp) and all(bool(g == e) for g, e in zip(got, exp))
            ctx.check(ok, "xafter(t, n, inc) is not the first n elements after t", key="xafter")
            return len(got)
        ctx.check((got is None) == (exp is None), "%s(): None-ness differs" % query, key=query + "-none")
        if exp is not None:
            ctx.check(got == exp, "%s() returns the wrong element" % query, key=query)
        return got is None
    return fn, types


def cells(tier):
    q = tier == "quick"
    cs = []
    ns = (3,) if q else (0, 1, 3, 4)
    pres = ("none", "list") if q else ("none", "list", "count", "next1", "contains")
    B = 150 if q else 900
    for n in ns:
        for cache in (False, True):
            for pre in pres:
                if not cache and pre != "none" and q:
                    continue
                cs.append(Cell(M, "h_index", dict(n=n, cache=cache, pre=pre), budget_s=B))
                for sg in (1, -1):
                    cs.append(Cell(M, "h_slice", dict(n=n, cache=cache, pre=pre, step_sign=sg), budget_s=B, max_violations=400))
                for qn in ("contains", "after", "before", "between", "xafter"):
                    cs.append(Cell(M, "h_scan", dict(n=n, cache=cache, pre=pre, query=qn), budget_s=B))
    return cs


ASSUMPTIONS = [
    "carrier: rruleset with n symbolic integer rdates (1..1000, strictly increasing) -- rrulebase's query code only iterates and compares; "
    "real rrule objects as carriers are covered by C01's harness producing the same iterator protocol",
    "slice bounds / index / count are solver integers in -n-2..n+2 that are pinned per path (the slice object must be concrete); query instants stay symbolic",
]
OUTSIDE = ["replace() (rrule-specific; see C13 cells on constructor state)", "step == 0 slices", "sequences longer than 4"]


def run(tier, seed, jobs):
    cs = report.filter_cells(cells(tier))
    res = chx.run_cells(cs, jobs)
    return report.aggregate("C12", res, assumptions=ASSUMPTIONS, bounds=dict(n_max=4, cells=len(cs)), outside=OUTSIDE)
