"""Aggregate E1 cell results into the dict engine.main expects."""
import os

from . import chx


def filter_cells(cells):
    only = os.environ.get("VERIF_ONLY")
    if only:
        cells = [c for c in cells if only in c.name]
    return cells


def aggregate(prop, results, *, assumptions, bounds, outside, stubs=(), extra_violations=(),
              extra_errors=(), extra=None, level="model_checking", stub_validation=None,
              explanation=None):
    viol, errors, inconcl = [], [], []
    decided = refuted = 0
    paths = confirmed = unknown = witnesses = reached = queries = decisions = 0
    solver_s = cpu_s = 0.0
    sites = set()
    samples = []
    cells_ev = []
    vacuous = []
    for r in results:
        paths += r.get("paths", 0)
        confirmed += r.get("confirmed", 0)
        unknown += r.get("unknown", 0)
        witnesses += r.get("witnesses", 0)
        reached += r.get("reached", 0)
        queries += r.get("queries", 0)
        decisions += r.get("decisions", 0)
        solver_s += r.get("solver_s", 0.0)
        cpu_s += r.get("cpu_s", 0.0)
        sites.update(r.get("sites", ()))
        for s in r.get("samples", [])[:1]:
            if len(samples) < 8:
                samples.append(dict(cell=r["name"], **s))
        for v in r.get("violations", []):
            viol.append(dict(key=v.get("key"), msg="%s [%s]" % (v.get("msg"), r["name"]),
                             replay=dict(cell=r["cell"], args=v["args"], msg=v.get("msg"),
                                         key=v.get("key"), info=v.get("info"))))
        for e in r.get("errors", []):
            errors.append(dict(cell=r["name"], **e))
        if r.get("fatal"):
            errors.append(dict(cell=r["name"], kind="fatal", msg=r["fatal"], tb=r.get("tb")))
        status = "decided"
        if r.get("violations"):
            status = "refuted"
            refuted += 1
        elif not r.get("exhausted") or r.get("unknown", 0):
            status = "inconclusive"
            inconcl.append("cell=%s paths=%d unknown=%d exhausted=%s cpu=%.0fs %s" % (
                r["name"], r.get("paths", 0), r.get("unknown", 0), r.get("exhausted"),
                r.get("cpu_s", 0), "; ".join(r.get("unknown_where", [])[:2])))
        else:
            decided += 1
        if "twin_refuted" in r and not r["twin_refuted"] and r.get("exhausted") and not r.get("unknown", 0):
            vacuous.append(r["name"])       # the whole tree was explored and no path reaches the end of the harness
        cells_ev.append(dict(name=r["name"], status=status, paths=r.get("paths", 0),
                             unknown=r.get("unknown", 0), exhausted=r.get("exhausted"),
                             ignored=r.get("ignored", 0), cpu_s=r.get("cpu_s", 0),
                             queries=r.get("queries", 0), twin_refuted=r.get("twin_refuted")))
    for name in vacuous:
        errors.append(dict(cell=name, kind="vacuous-harness",
                           msg="reachability twin was not refuted: the harness never reaches its end"))
    viol.extend(extra_violations)
    errors.extend(extra_errors)
    funcs = chx.sites_to_functions(sites)
    files = sorted({f.split(":")[0] for f in funcs})
    cov = dict(states=max(paths, 0), transitions=max(decisions, 0),
               traces_validated_against_impl=witnesses, samples=samples or [{"note": "no leaf"}],
               evaluations=paths, distinct_nontrivial=confirmed,
               rule="one evaluation = one explored path (path-equivalence class of inputs decided by z3); "
                    "non-trivial = leaf that ran the harness to its end with every assertion discharged "
                    "(pruned/ignored and unknown leaves are not counted); distinct by construction "
                    "(path conditions are mutually exclusive)",
               exhaustive=bool(results) and all(c["status"] == "decided" for c in cells_ev),
               cells_total=len(results), cells_decided=decided, cells_refuted=refuted,
               cells_inconclusive=len(inconcl), unknown_leaves=unknown,
               assertions_reached=reached)
    if explanation:
        cov["explanation"] = explanation
    ex = dict(functions_encoded=funcs, source_sha256=chx.source_hashes(set(files)),
              bounds=bounds, outside_bounds=outside, cells=cells_ev, queries=queries,
              solver_s=round(solver_s, 2), cpu_s=round(cpu_s, 1), stubs=list(stubs),
              repo_src=chx.REPO_SRC)
    if stub_validation is not None:
        ex["stub_validation"] = stub_validation
    if extra:
        ex.update(extra)
    summary = "cells=%d decided=%d refuted=%d inconclusive=%d paths=%d unknown=%d queries=%d solver=%.1fs witnesses=%d" % (
        len(results), decided, refuted, len(inconcl), paths, unknown, queries, solver_s, witnesses)
    return dict(level=level, violations=viol, errors=errors, inconclusive=inconcl, coverage=cov,
                assumptions=list(assumptions), extra=ex, summary=summary)
