"""C11 cached recurrences behave like uncached ones under any interleaving.

(a) one thread, several live iterators: the real rrulebase._iter_cached generator is driven by a SYMBOLIC
    run-length-encoded schedule (who runs next, for how many next() calls, or which query), with the cache mutex
    replaced by a model lock so that blocking is observable (acquire on a held lock with nobody else to run ==
    deadlock).
(b) two logical threads at statement granularity: engine/seqz.py rewrites _iter_cached from the CURRENT source
    into a step generator with a pre-emption point after every statement; the switch points are symbolic.
"""
from engine import chx, report
from engine import sym as S
from engine.chx import Cell

M = "harness.c11"


class Deadlock(Exception):
    pass


class ModelLock(object):
    def __init__(self):
        self.held = False
        self.owner = None

    def acquire(self, *a):
        if self.held:
            raise Deadlock("acquire() on a lock that is already held and nobody else can release it")
        self.held = True
        return True

    def release(self):
        if not self.held:
            raise RuntimeError("release unlocked lock")
        self.held = False

    def locked(self):
        return self.held

    def __enter__(self):
        self.acquire()

    def __exit__(self, *a):
        self.release()


class Src(object):
    def __init__(self, n):
        self.n = n

    def __iter__(self):
        return iter(range(1, self.n + 1))


LENS = (1, 2, 9, 10, 11, 12, 99)       # 99 == drain to exhaustion
QUERIES = ("list", "count", "getitem", "getitem-neg", "slice", "contains", "between")


def vocabulary(k, queries):
    ops = [("it", w, ln) for w in range(k) for ln in LENS]
    if queries:
        ops += [("q", qn, 0) for qn in (QUERIES if queries is True else queries)]
    return ops


def h_iters(n, k, segs, queries):
    """n items; k iterators; `segs` schedule segments, each a symbolic index into the operation vocabulary
    (iterator w advances LENS[j] times | a query)."""
    from dateutil.rrule import rruleset
    ops = vocabulary(k, queries)
    types = {"op%d" % j: int for j in range(segs)}
    expected = list(range(1, n + 1))

    def fn(ctx, **kw):
        rs = rruleset(cache=True)
        rs.rrule(Src(n))
        lock = ModelLock()
        rs._cache_lock = lock
        its = [None] * k
        seen = [[] for _ in range(k)]
        done = [False] * k
        trace = []
        prev = None
        for j in range(segs):
            o = kw["op%d" % j]
            ctx.assume(S.within(o, 0, len(ops) - 1))
            kind, w, ln = ops[ctx.concrete(o)]
            if kind == "it" and prev == ("it", w):
                ctx.assume(False)          # consecutive runs of one iterator merge: WLOG distinct
            prev = (kind, w)
            try:
                if kind == "it":
                    if its[w] is None:
                        its[w] = iter(rs)
                    trace.append("it%d x%d" % (w, ln))
                    for _ in range(ln):
                        if done[w]:
                            break
                        try:
                            seen[w].append(next(its[w]))
                        except StopIteration:
                            done[w] = True
                else:
                    trace.append("query %s" % w)
                    if w == "list":
                        ctx.check(list(rs) == expected, "list(rule) differs from the uncached sequence", key="query-list", trace=trace)
                    elif w == "count":
                        ctx.check(rs.count() == n, "count() wrong", key="query-count", trace=trace)
                    elif w == "getitem":
                        if n:
                            ctx.check(rs[n // 2] == expected[n // 2], "rule[i] wrong", key="query-getitem", trace=trace)
                    elif w == "getitem-neg":
                        for idx in (-1, -n):
                            if n:
                                ctx.check(rs[idx] == expected[idx], "rule[-i] wrong", key="query-getitem-neg", trace=trace)
                    elif w == "slice":
                        ctx.check(rs[1:n:2] == expected[1:n:2] and rs[-3:] == expected[-3:], "rule[a:b:c] wrong", key="query-slice", trace=trace)
                    elif w == "contains":
                        ctx.check((n in rs) == (n in expected) and ((n + 1) in rs) == ((n + 1) in expected), "x in rule wrong", key="query-contains", trace=trace)
                    else:
                        ctx.check(rs.between(0, n + 1) == expected, "between() wrong", key="query-between", trace=trace)
                        # bounds that ARE occurrences, inclusive and exclusive, whatever state the cache is in
                        for (a, b) in ((1, n), (1, 1), (n, n), (n // 2 + 1, n)) if n else ():
                            ctx.check(rs.between(a, b, inc=True) == [x for x in expected if a <= x <= b],
                                      "between(%d, %d, inc=True) differs from the uncached answer" % (a, b), key="query-between-inc", trace=trace)
                            ctx.check(rs.between(a, b) == [x for x in expected if a < x < b],
                                      "between(%d, %d) differs from the uncached answer" % (a, b), key="query-between-exc", trace=trace)
                        if n:
                            ctx.check(rs.after(1, inc=True) == 1 and rs.before(n, inc=True) == n and rs.after(n) is None and rs.before(1) is None,
                                      "after()/before() at an occurrence differ from the uncached answer", key="query-after-before", trace=trace)
            except Deadlock:
                ctx.fail("an operation blocks forever: the cache lock is still held by a finished fill",
                         key="deadlock-lock-left-held", trace=trace)
            except RuntimeError as e:
                ctx.fail("cache lock released while not held: %s" % e, key="double-release", trace=trace)
            except chx.Violation:
                raise
            except Exception as e:
                ctx.fail("operation raised %s" % type(e).__name__, key="raises-%s" % type(e).__name__, trace=trace)
            for q in range(k):
                ctx.check(seen[q] == expected[:len(seen[q])], "an iterator observes a reordered or wrong sequence",
                          key="sequence", trace=trace)
                if done[q]:
                    ctx.check(len(seen[q]) == n, "an iterator ends early", key="short", trace=trace)
        # quiescence: nothing is running, so the mutex must be free -- otherwise the next fill blocks forever
        ctx.check(not lock.held, "the cache lock is left held when no operation is in progress (the next cache fill blocks forever)",
                  key="deadlock-lock-left-held", trace=trace)
        return tuple(len(s) for s in seen)
    return fn, types


# ---------------------------------------------------------------- (b) logical threads at statement granularity
def _seq_iter_cached():
    import dateutil.rrule as R
    from engine import seqz
    return seqz.sequentialise(R, "rrulebase", "_iter_cached")


def h_threads(n, preemptions, progs):
    """Two logical threads over one cached rule of n items.  Thread program: iterate the rule completely
    (the real __iter__ dispatch followed by the step-generator form of _iter_cached).  Symbolic: the switch
    points s0 (, s1): thread 0 runs s0 steps, thread 1 runs s1 steps, then 0 to completion, then 1."""
    from dateutil.rrule import rruleset
    from engine import seqz
    step_fn, _src = _seq_iter_cached()
    types = {"s%d" % j: int for j in range(preemptions)}
    expected = list(range(1, n + 1))
    bound = 14 * n + 40

    def program(rs):
        # rrulebase.__iter__: three-way dispatch (each test is one atomic read)
        yield seqz.P
        if rs._cache_complete:
            yield seqz.P
            for x in list(rs._cache):
                yield ("item", x)
        else:
            yield seqz.P
            yield from step_fn(rs)

    def fn(ctx, **kw):
        rs = rruleset(cache=True)
        rs.rrule(Src(n))
        lock = seqz.ModelLock()
        rs._cache_lock = lock
        seqz.reset_running()
        ths = [seqz.Thread(program(rs), "T%d" % i) for i in range(2)]
        segs = []
        for j in range(preemptions):
            sj = kw["s%d" % j]
            ctx.assume(S.within(sj, 0, bound))
            segs.append((j % 2, ctx.concrete(sj)))
        try:
            seqz.run_schedule(ths, segs)
        except seqz.Deadlock:
            ctx.fail("deadlock: every unfinished thread waits for the cache lock", key="thread-deadlock", segs=segs)
        for t in ths:
            if t.error is not None:
                ctx.fail("a thread raised %s: %s" % (type(t.error).__name__, t.error),
                         key="thread-raises-%s" % type(t.error).__name__, segs=segs)
            ctx.check(t.items == expected, "a thread observed %r instead of the uncached sequence" % (t.items,),
                      key="thread-sequence", segs=segs)
        ctx.check(not lock.held, "cache lock left held at quiescence", key="deadlock-lock-left-held", segs=segs)
        ctx.check(not lock.errors, "lock released twice", key="double-release", segs=segs)
        ctx.check(rs._cache_complete and list(rs._cache) == expected and rs._len == n,
                  "shared cache state wrong after both threads finished", key="thread-final-state", segs=segs)
        return tuple(t.steps for t in ths)
    return fn, types


def cells(tier):
    q = tier == "quick"
    cs = []
    for n in ((1, 11) if q else (0, 1, 9, 10, 11, 12, 19, 20, 21)):
        cs.append(Cell(M, "h_iters", dict(n=n, k=2, segs=3 if q else 4, queries=False), budget_s=200 if q else 3000,
                       per_path_s=20, max_violations=2000))
        for qs in (["list", "count", "getitem", "between"], ["getitem-neg", "slice", "contains"]):
            cs.append(Cell(M, "h_iters", dict(n=n, k=2, segs=3, queries=qs), budget_s=240 if q else 1800,
                           per_path_s=20, max_violations=2000))
    if not q:
        for n in (1, 11, 20):
            cs.append(Cell(M, "h_iters", dict(n=n, k=3, segs=3, queries=False), budget_s=2400, per_path_s=20,
                           max_violations=2000))
    for n in ((0, 1, 2) if q else (0, 1, 2, 3, 10, 11)):
        cs.append(Cell(M, "h_threads", dict(n=n, preemptions=1, progs="iter"), budget_s=200, max_violations=2000))
        if n <= (2 if q else 11):
            cs.append(Cell(M, "h_threads", dict(n=n, preemptions=2, progs="iter"), budget_s=200 if q else 3000,
                           max_violations=2000))
    return cs


ASSUMPTIONS = [
    "the cache mutex (_thread.allocate_lock) is replaced by a model lock: acquire on a held lock in a single-threaded "
    "schedule is reported as a deadlock, release of a free lock as an error",
    "schedules are run-length encoded: per segment the solver picks which iterator/query runs and a run length from %r (99 = until exhausted)" % (LENS,),
    "rule length n is a cell parameter around the fill batch of 10; item values are 1..n (the cache code never inspects them)",
]
ASSUMPTIONS += [
    "thread cells: rrulebase._iter_cached is re-parsed from the current source and rewritten into a step generator "
    "(pre-emption point before every statement; acquire() becomes a try-acquire loop); attribute access and list/generator "
    "operations are atomic steps (GIL granularity); two logical threads, pre-emption bound 1 or 2, switch points are solver variables",
]
OUTSIDE = ["more than 3 iterators / 4 segments", "pre-emption bound > 2, more than 2 threads, real OS-thread timing",
           "pre-emption inside the underlying generator while it is advanced (it is only advanced under the mutex)"]


def run(tier, seed, jobs):
    cs = report.filter_cells(cells(tier))
    res = chx.run_cells(cs, jobs)
    return report.aggregate("C11", res, assumptions=ASSUMPTIONS, bounds=dict(lens=LENS), outside=OUTSIDE)
