"""C08 tzstr / tzrange / tzlocal implement POSIX TZ rule semantics (also the C04/C05 clauses for these zones)."""
import contextlib
import datetime

from engine import chx, report, stubs, tsdt
from engine import sym as S
from engine.chx import Cell
from harness import posixtz as P

M = "harness.c08"
EPOCH_ORD = datetime.date(1970, 1, 1).toordinal()


def _expected_fns(spec, year):
    ev, first = P.breakpoints(spec, range(year - 1, year + 2))
    std, dst = spec["stdoff"], P.dstoff(spec)

    def isdst_at(u):
        r = first
        for (t, st) in ev:
            r = S.ite(S.le(t, u), st, r)
        return r

    def off_at(u):
        return S.ite(S.eq(isdst_at(u), 1), dst, std)
    return ev, isdst_at, off_at


class _TimeShim(object):
    """`time` as seen from dateutil.tz.tz for tzlocal: the platform follows the POSIX rule under test."""

    def __init__(self, spec, isdst_at):
        self.timezone = -spec["stdoff"]
        self.altzone = -P.dstoff(spec) if spec.get("dst") else -spec["stdoff"]
        self.daylight = 1 if spec.get("dst") else 0
        self.tzname = (spec["std"], spec.get("dst") or spec["std"])
        self._isdst_at = isdst_at

    def localtime(self, t):
        shim = self

        class _ST(object):
            tm_isdst = shim._isdst_at(t)
        return _ST()


def make_zone(kind, spec):
    from dateutil import tz
    from dateutil import relativedelta as rd
    if kind.startswith("tzical"):
        from harness import c17
        return c17.build_zone(kind, spec)
    if kind == "tzstr":
        return tz.tzstr.instance(P.render(spec))
    if kind == "tzrange":
        if not spec.get("dst"):
            return tz.tzrange(spec["std"], spec["stdoff"])
        ks, ts = P.to_relativedelta(spec["start"], 0, spec)
        ke, te = P.to_relativedelta(spec["end"], 1, spec)
        return tz.tzrange(spec["std"], spec["stdoff"], spec["dst"], P.dstoff(spec),
                          rd.relativedelta(seconds=ts, **ks), rd.relativedelta(seconds=te, **ke))
    raise ValueError(kind)


def h_rule(kind, spec, year, wallmode=False):
    """Symbolic instant over year `year` (+-3 days).  wallmode=False: a UTC instant (offset / abbreviation / dst /
    round trip).  wallmode=True: a naive wall time (exists / ambiguous / fold)."""
    from dateutil import tz
    ev, isdst_at, off_at = _expected_fns(spec, year)
    y0 = (datetime.date(year, 1, 1).toordinal() - EPOCH_ORD) * 86400
    lo, hi = y0 - 3 * 86400, y0 + 369 * 86400
    std, dst = spec["stdoff"], P.dstoff(spec)
    rule = P.render(spec)
    shim = _TimeShim(spec, isdst_at)
    types = dict(t=int)

    @contextlib.contextmanager
    def zstubs():
        if kind == "tzlocal":
            with stubs.rebind("dateutil.tz.tz", time=shim):
                yield
        else:
            yield

    if kind != "tzlocal":
        zone = make_zone(kind, spec)

    def fn(ctx, t):
        ctx.assume(S.within(t, lo, hi))
        if kind == "tzlocal":
            if ctx.symbolic:
                z = tz.tzlocal()
            else:
                # native replay: the same shim stands in for the C library
                with stubs.rebind("dateutil.tz.tz", time=shim):
                    z = tz.tzlocal()
        else:
            z = zone
            if hasattr(z, "_cachedate"):        # tzical: per-object lookup cache must not leak between paths
                del z._cachedate[:]
                del z._cachecomp[:]
        # which segment between the expected break points the instant lies in: split on it so that the finding key is
        # pinned by the path (a known finding at one transition must not hide a regression elsewhere)
        segv = S.add(*[S.b2i(S.le(bp - (86400 if wallmode else 0), t)) for (bp, _st) in ev]) if ev else 0
        seg = ctx.split(segv, range(len(ev) + 1))
        tag = "%s|%s|%d|seg%d" % (kind, rule, year, seg)
        native_time = contextlib.nullcontext() if (ctx.symbolic or kind != "tzlocal") else stubs.rebind("dateutil.tz.tz", time=shim)
        with native_time:
            if not wallmode:
                u = t
                wall = z.fromutc(tsdt.mk(ctx, u, z, year_hint=year))
                w = tsdt.ts_of(wall)
                eoff = off_at(u)
                eis = isdst_at(u)
                ctx.check(S.eq(S.sub(w, u), eoff), "wall - UTC is not the offset POSIX prescribes", key=tag + "|offset")
                ctx.check(S.eq(tsdt.secs(wall.utcoffset()), eoff), "utcoffset() of the converted datetime is not the POSIX offset",
                          key=tag + "|utcoffset")
                ctx.check(S.eq(tsdt.secs(wall.dst()), S.ite(S.eq(eis, 1), dst - std, 0)), "dst() is not the POSIX saving",
                          key=tag + "|dst")
                ename = spec.get("dst") if spec.get("dst") else spec["std"]
                nm = wall.tzname()
                ctx.check(S.or_(S.and_(S.eq(eis, 1), nm == ename), S.and_(S.eq(eis, 0), nm == spec["std"])),
                          "abbreviation is not the one POSIX prescribes", key=tag + "|abbr")
                back = wall.astimezone(tz.UTC)
                ctx.check(S.eq(tsdt.ts_of(back), u), "local -> UTC does not return the instant", key=tag + "|roundtrip")
                return None
            w = t
            naive = tsdt.mk(ctx, w, None, year_hint=year)
            c_std = S.b2i(S.eq(off_at(S.sub(w, std)), std))
            c_dst = S.b2i(S.eq(off_at(S.sub(w, dst)), dst)) if dst != std else 0
            count = S.add(c_std, c_dst)
            ex = tz.datetime_exists(naive, z)
            ctx.check(S.eq(bool(ex), S.le(1, count)), "datetime_exists disagrees with the POSIX pre-image count", key=tag + "|exists")
            amb = tz.datetime_ambiguous(naive, z)
            ctx.check(S.eq(bool(amb), S.le(2, count)), "datetime_ambiguous disagrees with the POSIX pre-image count", key=tag + "|ambiguous")
            o0 = tsdt.secs(tsdt.mk(ctx, w, z, 0, year_hint=year).utcoffset())
            o1 = tsdt.secs(tsdt.mk(ctx, w, z, 1, year_hint=year).utcoffset())
            if S.le(2, count):
                ctx.check(S.and_(S.lt(o1, o0), S.eq(off_at(S.sub(w, o0)), o0), S.eq(off_at(S.sub(w, o1)), o1)),
                          "fold=0 / fold=1 are not the earlier / later instant", key=tag + "|fold-order")
                f0 = z.fromutc(tsdt.mk(ctx, S.sub(w, o0), z, year_hint=year))
                f1 = z.fromutc(tsdt.mk(ctx, S.sub(w, o1), z, year_hint=year))
                ctx.check(S.and_(S.eq(f0.fold, 0), S.eq(f1.fold, 1)), "fromutc does not set fold 0 / 1 on the repeated wall time",
                          key=tag + "|fromutc-fold")
            elif S.eq(count, 1):
                ctx.check(S.and_(S.eq(o0, o1), S.eq(off_at(S.sub(w, o0)), o0)), "fold changes the offset of an unambiguous wall time",
                          key=tag + "|fold-noeffect")
            return None
    return fn, types, zstubs


# ------------------------------------------------------------------ malformed strings
BAD_HAND = ["EST5EDT,M3.2.0,M11.1", "EST5EDT,M3.2.0,", "EST5EDT,M3.2.0/2,M11.1.0/", "EST5EDT,J60,J", "EST+", "EST5:", "EST5EDT,M3.2", "EST5EDT,M3",
            "EST5EDT,M3.2.0", "EST5EDT,M3.2.0,M11.1.0,M12.1.0", "EST5EDT4,M3.2.0,M11.1.0,5", "E$T5EDT", "EST5EDT,M3.2.0;M11.1.0", "EST5EDT,X3.2.0,M11.1.0",
            "EST5EDT,M3.2.0,M11.1.0/2:", "5", ",", "EST5EDT,,", "EST5 EDT,M3.2.0,M11.1.0", "EST5EDT,M3.2.0/,M11.1.0", "EST5EDT,M.2.0,M11.1.0", "EST5EDT,J,J300"]


def h_malformed():
    """Malformed TZ strings (hand-written: unknown characters, missing or surplus fields, dangling signs / colons) are
    rejected with ValueError; every prefix and every one-character deletion of each well-formed spec either builds a zone
    or raises ValueError - never another exception type.  Strings are pinned per path and run natively."""
    from dateutil import tz
    goods = [P.render(sp) for sp in specs("quick") if not sp.get("no_tzstr")]
    types = dict(mode=int, si=int, pos=int)
    maxlen = max(len(g) for g in goods)

    def fn(ctx, mode, si, pos):
        ctx.assume(S.within(mode, 0, 2))
        mode = ctx.concrete(mode)
        if mode == 0:
            ctx.assume(S.within(si, 0, len(BAD_HAND) - 1))
            ctx.assume(pos == 0)
        else:
            ctx.assume(S.within(si, 0, len(goods) - 1))
            ctx.assume(S.within(pos, 0, maxlen - 1))
        si, pos = ctx.concrete(si), ctx.concrete(pos)
        if mode and pos >= len(goods[si]):
            ctx.assume(False)
        if ctx.symbolic:
            return None
        with ctx.untraced():
            if mode == 0:
                text = BAD_HAND[si]
            elif mode == 1:
                text = goods[si][:pos]
            else:
                text = goods[si][:pos] + goods[si][pos + 1:]
            try:
                z = tz.tzstr.instance(text)
            except ValueError:
                return None
            except Exception as e:
                ctx.fail("tzstr(%r) raised %s (%s); a malformed string must be rejected with ValueError" % (text, type(e).__name__, str(e)[:60]),
                         key="malformed:%s" % type(e).__name__)
            if mode == 0:
                ctx.fail("malformed TZ string %r accepted" % (text,), key="malformed:accepted:%s" % text.replace(" ", "<sp>"))
            ctx.check(z.utcoffset(datetime.datetime(2024, 1, 15)) is not None, "zone built from %r cannot report an offset" % (text,), key="malformed:half-built")
        return None
    return fn, types


# ------------------------------------------------------------------ rule space
def M_(m, w, d, t=None):
    return ("M", m, w, d, t)


def specs(tier, own=False):
    us = dict(std="EST", stdoff=-5 * 3600, dst="EDT", dstoff=None)
    au = dict(std="AEST", stdoff=10 * 3600, dst="AEDT", dstoff=None)
    out = []

    def add(base, start, end, **kw):
        d = dict(base, start=start, end=end)
        d.update(kw)
        out.append(d)
    add(us, M_(3, 2, 0), M_(11, 1, 0))                                  # default 02:00
    add(us, M_(3, 2, 0, 7200), M_(11, 1, 0, 7200))
    add(au, M_(10, 1, 0), M_(4, 1, 0, 3 * 3600))                         # southern hemisphere
    add(dict(std="CET", stdoff=3600, dst="CEST", dstoff=None), M_(3, 5, 0), M_(10, 5, 0, 3 * 3600))   # last week
    add(dict(std="NST", stdoff=-3 * 3600 - 1800, dst="NDT", dstoff=None), M_(3, 2, 0, 7200 + 60), M_(11, 1, 0, 7200 + 60))   # half-hour std, hh:mm times
    add(dict(std="LHST", stdoff=10 * 3600 + 1800, dst="LHDT", dstoff=11 * 3600), M_(10, 1, 0), M_(4, 1, 0))   # 30 min saving
    add(us, ("J", 60, None), ("J", 300, None))
    add(us, ("N", 59, None), ("N", 300, 3600))
    add(dict(std="FXD", stdoff=5 * 3600 + 1800, dst=None), None, None)           # fixed offset
    add(dict(std="XST", stdoff=0, dst="XDT", dstoff=2 * 3600), M_(3, 5, 6, 3600), M_(10, 4, 3, 4 * 3600))   # two-hour saving
    add(dict(std="AAA", stdoff=-2 * 3600, dst="BBB", dstoff=0), M_(3, 2, 0), M_(11, 1, 0, 3 * 3600))          # explicit daylight offset of exactly UTC
    # offsets with a seconds part (local-mean-time style), negative: expressible as tzrange / VTIMEZONE / platform model, not as a TZ string here
    add(dict(std="LMT", stdoff=-(4 * 3600 + 56 * 60 + 2), dst="LDT", dstoff=-(3 * 3600 + 56 * 60 + 2)), M_(3, 2, 0), M_(11, 1, 0), no_tzstr=True)
    if tier == "thorough":
        add(us, M_(4, 1, 1, 0), M_(10, 5, 5, 2 * 3600 + 30 * 60))
        add(au, ("J", 280, 2 * 3600), ("J", 95, 3 * 3600))
        add(us, ("N", 100, 5 * 3600), ("N", 280, 5 * 3600))
        add(dict(std="WET", stdoff=0, dst="WEST", dstoff=None), M_(3, 5, 0, 3600), M_(10, 5, 0, 2 * 3600))
    if tier == "thorough" or own:     # rule times with a seconds part (h:mm:ss); quick tier: C08's own cells only
        add(us, M_(3, 2, 0, 3 * 3600 + 15 * 60 + 30), M_(11, 1, 0, 3600 + 59))
    # rule forms expected to expose the known tzstr defects (end time smaller than the saving; 24:00)
    add(dict(std="CET", stdoff=3600, dst="CEST", dstoff=None), M_(3, 5, 0, 3600), M_(10, 5, 0, 0))
    add(us, M_(3, 2, 0, 24 * 3600), M_(11, 1, 0, 24 * 3600))
    return out


def cells(tier):
    q = tier == "quick"
    cs = [Cell("harness.c08", "h_malformed", {}, budget_s=150)]
    years = (2024,) if q else (2024, 2023, 2000, 1999, 2100, 2037)
    for si, spec in enumerate(specs(tier, own=True)):
        for kind in ("tzstr", "tzrange", "tzlocal"):
            if kind == "tzstr" and spec.get("no_tzstr"):
                continue
            if kind == "tzrange" and spec.get("dst"):
                # the equivalent relativedelta puts the time in standard time; it must stay inside the rule's day
                te = P.rule_time(spec["end"]) - (P.dstoff(spec) - spec["stdoff"])
                if not (0 <= te < 86400 and 0 <= P.rule_time(spec["start"]) < 86400):
                    continue
            for y in years:
                for wm in (False, True):
                    cs.append(Cell(M, "h_rule", dict(kind=kind, spec=spec, year=y, wallmode=wm),
                                   name="%s[%s]@%d%s" % (kind, P.render(spec), y, "/wall" if wm else "/utc"),
                                   budget_s=120 if q else 600, per_path_s=20, max_violations=100))
    return cs


ASSUMPTIONS = [
    "rules are cell parameters (rendered to the TZ string and to the equivalent tzrange arguments from one structured spec); the instant "
    "(UTC instant resp. naive wall time, whole seconds, over the cell's year +-3 days) is the solver variable; years are cell parameters",
    "the expected offset / dst flag is a piecewise-constant function with break points computed by an independent POSIX implementation (harness/posixtz.py)",
    "tzlocal: `time` as seen from dateutil.tz.tz is a platform model following the same POSIX rule (timezone/altzone/daylight/tzname and localtime().tm_isdst)",
    "datetimes are timestamp-backed stand-ins (engine/tsdt.py)",
    "tzrange cells are skipped for rules whose standard-time expression leaves the rule's day (not expressible as one relativedelta)",
]
OUTSIDE = ["malformed TZ strings beyond the hand-written list and the prefixes / one-character deletions of the well-formed specs (the tokeniser splits text with a regex; symbolic text is out of reach)", "the deprecated comma format",
           "rules closer than a month to each other or to the year boundary", "symbolic rule numbers (rule parameters are enumerated cells)"]


def run(tier, seed, jobs):
    n, bad = tsdt.validate(seed, 1000)
    errs = [dict(kind="stub-validation", stub="TsDT", sample=repr(b)) for b in bad[:5]]
    cs = report.filter_cells(cells(tier))
    res = chx.run_cells(cs, jobs)
    return report.aggregate("C08", res, assumptions=ASSUMPTIONS, bounds=dict(cells=len(cs)), outside=OUTSIDE,
                            stubs=["TsDT", "time shim (tzlocal)"], extra_errors=errs)
