"""C12 recurrence queries agree with the listed sequence L = list(rule).

Carrier: rruleset (cached / uncached) whose members are symbolic integer instants (the query code of rrulebase only
compares and iterates), with an optional earlier query to vary the cache state.  Oracle: Python list semantics.
"""
import itertools

from engine import chx, report
from engine import sym as S
from engine.chx import Cell

M = "harness.c12"


def _mk(ctx, kw, n, cache):
    from dateutil.rrule import rruleset
    ts = [kw["t%d" % i] for i in range(n)]
    for t in ts:
        ctx.assume(S.within(t, 1, 1000))
    for a, b in zip(ts, ts[1:]):
        ctx.assume(S.lt(a, b))          # rdates are sorted by the set anyway; distinct increasing instants
    rs = rruleset(cache=cache)
    for t in ts:
        rs.rdate(t)
    return rs, ts


def _pre(rs, pre):
    if pre == "list":
        list(rs)
    elif pre == "count":
        rs.count()
    elif pre == "next1":
        it = iter(rs)
        next(it, None)
    elif pre == "contains":
        500 in rs


def h_index(n, cache, pre):
    types = {"t%d" % i: int for i in range(n)}
    types["i"] = int

    def fn(ctx, **kw):
        i = kw.pop("i")
        rs, L = _mk(ctx, kw, n, cache)
        ctx.assume(S.within(i, -n - 2, n + 2))
        _pre(rs, pre)
        ic = ctx.concrete(i)
        try:
            exp = ("ok", L[ic])
        except IndexError:
            exp = ("IndexError", None)
        try:
            got = ("ok", rs[ic])
        except IndexError:
            got = ("IndexError", None)
        except Exception as e:
            ctx.fail("rule[i] raised %s" % type(e).__name__, key="index-exc-%s" % type(e).__name__)
        ctx.check(got[0] == exp[0], "rule[i] raises IndexError differently from list(rule)[i]", key="index-raise")
        if got[0] == "ok":
            ctx.check(got[1] == exp[1], "rule[i] != list(rule)[i]", key="index-value")
        c = rs.count()
        ctx.check(c == n, "count() != len(list(rule))", key="count")
        return got[0]
    return fn, types


def h_slice(n, cache, pre, step_sign):
    types = {"t%d" % i: int for i in range(n)}
    types.update(a=int, b=int, c=int, an=bool, bn=bool, cn=bool)

    def fn(ctx, **kw):
        a, b, c, an, bn, cn = [kw.pop(k) for k in ("a", "b", "c", "an", "bn", "cn")]
        rs, L = _mk(ctx, kw, n, cache)
        for v in (a, b):
            ctx.assume(S.within(v, -n - 1, n + 1))
        if step_sign > 0:
            ctx.assume(S.within(c, 1, 3))
        else:
            ctx.assume(S.within(c, -3, -1))
        a, b, c = ctx.concrete(a), ctx.concrete(b), ctx.concrete(c)
        an, bn, cn = ctx.concrete(an), ctx.concrete(bn), ctx.concrete(cn)
        sl = slice(None if an else a, None if bn else b, None if cn else c)
        if cn and step_sign < 0:
            ctx.assume(False)
        _pre(rs, pre)
        exp = L[sl]
        try:
            got = rs[sl]
        except Exception as e:
            neg = (sl.start is not None and sl.start < 0) or (sl.stop is not None and sl.stop < 0)
            ctx.fail("rule[a:b:c] raised %s" % type(e).__name__,
                     key="slice-exc-%s%s" % (type(e).__name__, "-negative-bound" if neg else ""), sl=repr(sl))
        ok = len(got) == len(exp)
        if ok:
            for g, e in zip(got, exp):
                ok = ok and bool(g == e)
        kind = ""
        if not ok:
            if sl.stop == 0:
                kind = "-stop0"
            elif (sl.start is not None and sl.start < 0) or (sl.stop is not None and sl.stop < 0):
                kind = "-negative-bound"
        ctx.check(ok, "rule[a:b:c] != list(rule)[a:b:c]", key="slice-value" + kind, sl=repr(sl))
        return len(got)
    return fn, types


def h_scan(n, cache, pre, query):
    types = {"t%d" % i: int for i in range(n)}
    types.update(x=int, y=int, inc=bool, cnt=int)

    def fn(ctx, **kw):
        x, y, inc, cnt = [kw.pop(k) for k in ("x", "y", "inc", "cnt")]
        rs, L = _mk(ctx, kw, n, cache)
        ctx.assume(S.within(x, 0, 1001))
        ctx.assume(S.within(y, 0, 1001))
        ctx.assume(S.within(cnt, 0, n + 1))
        if query not in ("between",):
            ctx.assume(y == 0)
        if query != "xafter":
            ctx.assume(cnt == 0)
        inc = ctx.concrete(inc)
        _pre(rs, pre)
        if query == "contains":
            got = x in rs
            exp = S.or_(*[S.eq(x, t) for t in L]) if L else False
            ctx.check(bool(got) == bool(exp), "x in rule disagrees with x in list(rule)", key="contains")
            return bool(got)
        if query == "after":
            got = rs.after(x, inc)
            cand = [t for t in L if (t >= x if inc else t > x)]
            exp = cand[0] if cand else None
        elif query == "before":
            got = rs.before(x, inc)
            cand = [t for t in L if (t <= x if inc else t < x)]
            exp = cand[-1] if cand else None
        elif query == "between":
            got = rs.between(x, y, inc)
            exp = [t for t in L if ((x <= t <= y) if inc else (x < t < y))]
            ok = len(got) == len(exp) and all(bool(g == e) for g, e in zip(got, exp))
            ctx.check(ok, "between(a, b, inc) is not the sub-list between a and b", key="between")
            return len(got)
        else:
            cntc = ctx.concrete(cnt)
            got = list(rs.xafter(x, cntc, inc))
            exp = [t for t in L if (t >= x if inc else t > x)][:cntc]
            ok = len(got) == len(exp) and all(bool(g == e) for g, e in zip(got, exp))
            ctx.check(ok, "xafter(t, n, inc) is not the first n elements after t", key="xafter")
            return len(got)
        ctx.check((got is None) == (exp is None), "%s(): None-ness differs" % query, key=query + "-none")
        if exp is not None:
            ctx.check(got == exp, "%s() returns the wrong element" % query, key=query)
        return got is None
    return fn, types


# ---------------------------------------------------------------- longer sequences over real rrule carriers: the cache fills in chunks
LONG_PRE = ("none", "r0", "contains-first", "after-first", "between-head", "idx5", "iter3", "slice-head")


def h_long(carrier, cache, pre):
    """Real rrule / rruleset carriers with n = 0..25 daily occurrences; an earlier early-stopping query leaves the cache
    partially filled; then rule[i] for every i in -n-2..n+2, count() and a membership query.  All inputs are pinned per
    path by the solver (n, i); the check runs in the native replay of each path's witness."""
    import datetime
    from dateutil import rrule as RR
    types = dict(n=int, i=int)
    start = datetime.datetime(1997, 12, 20, 9, 0)      # 25 daily occurrences cross the year boundary

    def fn(ctx, n, i):
        ctx.assume(S.within(n, 0, 25))
        ctx.assume(S.within(i, -27, 27))
        ctx.assume(S.within(i, S.sub(-2, n), S.add(n, 2)))
        n, i = ctx.concrete(n), ctx.concrete(i)
        if ctx.symbolic:
            return None
        with ctx.untraced():
            L = [start + datetime.timedelta(days=k) for k in range(n)]

            def build():
                r = RR.rrule(RR.DAILY, dtstart=start, count=n, cache=cache)
                if carrier == "rruleset":
                    rs = RR.rruleset(cache=cache)
                    rs.rrule(r)
                    return rs
                return r
            r = build()
            held = None
            if pre == "r0":
                try:
                    r[0]
                except IndexError:
                    pass
            elif pre == "contains-first":
                start in r
            elif pre == "after-first":
                r.after(start)
            elif pre == "between-head":
                r.between(start, start + datetime.timedelta(days=3), inc=True)
            elif pre == "idx5":
                try:
                    r[5]
                except IndexError:
                    pass
            elif pre == "iter3":
                held = iter(r)
                for _ in range(3):
                    next(held, None)
            elif pre == "slice-head":
                r[0:2]
            key = "long:%s:%s" % (carrier, pre)
            try:
                exp = ("ok", L[i])
            except IndexError:
                exp = ("IndexError", None)
            try:
                got = ("ok", r[i])
            except IndexError:
                got = ("IndexError", None)
            except Exception as e:
                ctx.fail("rule[%d] raised %s (n=%d, after %s)" % (i, type(e).__name__, n, pre), key=key + ":index-exc")
            ctx.check(got == exp, "rule[%d] = %r but list(rule)[%d] = %r (n=%d, cache=%s, after %s)" % (i, got, i, exp, n, cache, pre), key=key + ":index")
            ctx.check(r.count() == n, "count() != len(list(rule)) (n=%d, after %s)" % (n, pre), key=key + ":count")
            if L:
                ctx.check(L[-1] in r and (L[-1] + datetime.timedelta(hours=1)) not in r, "membership differs from the listed sequence", key=key + ":contains")
            ctx.check(list(r) == L, "list(rule) after the queries differs from the uncached sequence", key=key + ":list")
            ctx.check(list(build()[max(i, 0)::3]) == L[max(i, 0)::3], "rule[i::3] != list(rule)[i::3]", key=key + ":slice")
            if held is not None:
                # the iterator that was paused before the queries goes on from where it stopped, whatever ran in between
                try:
                    rest = list(held)
                except Exception as e:
                    ctx.fail("an iterator paused before other queries raised %s when continued (n=%d)" % (type(e).__name__, n), key=key + ":held-raises")
                ctx.check(rest == L[3:], "an iterator paused before other queries continued with %r, expected %r" % (rest[:3], L[3:6]), key=key + ":held")
            # a lazy xafter() that is partly consumed, another query, then the rest
            r2 = build()
            lazy = r2.xafter(start - datetime.timedelta(days=1), count=n + 2, inc=True)
            head = list(itertools.islice(lazy, 2))
            r2.count()
            (L[-1] if L else start) in r2
            try:
                tail = list(lazy)
            except Exception as e:
                ctx.fail("a partly consumed xafter() raised %s after other queries ran (n=%d)" % (type(e).__name__, n), key=key + ":lazy-raises")
            ctx.check(head + tail == L, "a partly consumed xafter() continued with %r after other queries, expected %r" % (tail[:3], L[2:5]), key=key + ":lazy")
        return None
    return fn, types


# ---------------------------------------------------------------- replace(): differs only in the named parameters
def _replace_tables():
    import datetime
    from dateutil import rrule as RR
    start = datetime.datetime(1997, 9, 2, 9, 0)       # a Tuesday
    bases = [
        ("weekly", dict(freq=RR.WEEKLY)),
        ("weekly-tu-th", dict(freq=RR.WEEKLY, byweekday=(RR.TU, RR.TH))),
        ("weekly-i2-su", dict(freq=RR.WEEKLY, interval=2, wkst=RR.SU)),
        ("monthly", dict(freq=RR.MONTHLY)),
        ("monthly-15", dict(freq=RR.MONTHLY, bymonthday=(15,))),
        ("monthly-1fr", dict(freq=RR.MONTHLY, byweekday=(RR.FR(1),))),
        ("yearly", dict(freq=RR.YEARLY)),
        ("yearly-mar", dict(freq=RR.YEARLY, bymonth=(3,))),
        ("daily-9h", dict(freq=RR.DAILY, byhour=(9, 17))),
        ("daily-count", dict(freq=RR.DAILY, count=5)),
        ("daily-until", dict(freq=RR.DAILY, until=start + datetime.timedelta(days=40))),
        ("hourly", dict(freq=RR.HOURLY, interval=5)),
        ("minutely", dict(freq=RR.MINUTELY, interval=45)),
        ("weekly-cached", dict(freq=RR.WEEKLY, cache=True)),
    ]
    changes = [("dtstart", "shift")] + [("freq", f) for f in range(7)] + [
        ("interval", 3), ("count", 3), ("until", start + datetime.timedelta(days=400)), ("byweekday", (RR.MO,)), ("byweekday", (RR.WE(2),)),
        ("bymonthday", (1,)), ("bymonthday", (-1,)), ("bymonth", (6,)), ("wkst", 3), ("byhour", (6,)), ("byminute", (30,)), ("bysecond", (15,)),
        ("cache", True), ("byyearday", (100,)), ("byweekno", (20,)), ("bysetpos", (1,)),
    ]
    return start, bases, changes


def h_replace(bi):
    import datetime
    import warnings
    from dateutil import rrule as RR
    from harness import c13
    start, bases, changes = _replace_tables()
    bname, base = bases[bi]
    types = dict(c=int, k=int, second=int)

    def fn(ctx, c, k, second):
        ctx.assume(S.within(c, 0, len(changes) - 1))
        ctx.assume(S.within(k, 1, 6))
        ctx.assume(S.within(second, -1, len(changes) - 1))
        ctx.assume(S.or_(S.eq(c, 0), S.eq(k, 1)))            # the day shift only matters for dtstart (change 0)
        ctx.assume(S.or_(S.eq(second, -1), S.eq(S.mod(S.add(second, 5), 5), S.mod(c, 5))))      # a thinned set of two-parameter replacements
        c, k, second = ctx.concrete(c), ctx.concrete(k), ctx.concrete(second)
        if second >= 0:
            ctx.assume(changes[second][0] != changes[c][0])
        if ctx.symbolic:
            return None
        with ctx.untraced(), warnings.catch_warnings():
            warnings.simplefilter("ignore")
            named = {}
            for ci in ([c] if second < 0 else [c, second]):
                name, val = changes[ci]
                if val == "shift":
                    val = start + datetime.timedelta(days=k, hours=k)
                named[name] = val
            kw = dict(base)
            freq = kw.pop("freq")
            orig = RR.rrule(freq, dtstart=start, **kw)
            before = c13.state(orig)
            key = "replace:%s:%s" % (bname, "+".join(sorted(named)))
            merged = dict(kw, dtstart=start, freq=freq)
            merged.update(named)
            f2 = merged.pop("freq")
            try:
                want = RR.rrule(f2, **merged)
            except Exception as e:
                want = type(e)
            try:
                got = orig.replace(**named)
            except Exception as e:
                got = type(e)
            if isinstance(want, type) or isinstance(got, type):
                ctx.check(got is want, "replace(%s) raised/returned %r, building the rule afresh gives %r" % (sorted(named), got, want), key=key + ":raises")
                return None
            ctx.check(c13.state(orig) == before, "replace() modified the rule it was called on", key=key + ":mutates")
            ctx.check(c13.state(got) == c13.state(want) and got._cache_complete == want._cache_complete and (got._cache is None) == (want._cache is None),
                      "replace(%s) differs from the rule built afresh with those parameters changed" % (sorted(named),), key=key + ":state")
            by = set(merged)
            if ("byyearday" in by and by & {"bymonth", "bymonthday", "byweekno"}) or ("byweekno" in by and by & {"bymonth", "bymonthday"}):
                return None      # possibly an empty rule: iterating it spins to year 9999 (minutes for sub-daily rules); state compared above
            a = list(itertools.islice(got, 6))
            b = list(itertools.islice(want, 6))
            ctx.check(a == b, "replace(%s): occurrences %r, expected %r" % (sorted(named), a[:3], b[:3]), key=key + ":occurrences")
            ctx.check(list(itertools.islice(orig, 3)) == list(itertools.islice(RR.rrule(freq, dtstart=start, **kw), 3)),
                      "the original rule changed its occurrences after replace()", key=key + ":orig-occurrences")
        return None
    return fn, types


def cells(tier):
    q = tier == "quick"
    cs = []
    _s, bases, _c = _replace_tables()
    for bi in range(len(bases)):
        cs.append(Cell(M, "h_replace", dict(bi=bi), name="replace[%s]" % bases[bi][0], budget_s=150 if q else 900))
    for carrier in ("rrule", "rruleset"):
        for cache in (True, False):
            for pre in LONG_PRE:
                if not cache and pre not in ("none", "idx5"):
                    continue
                if q and carrier == "rruleset" and pre in ("between-head", "slice-head", "contains-first"):
                    continue
                cs.append(Cell(M, "h_long", dict(carrier=carrier, cache=cache, pre=pre), budget_s=200 if q else 900))
    ns = (3,) if q else (0, 1, 3, 4)
    pres = ("none", "list") if q else ("none", "list", "count", "next1", "contains")
    B = 150 if q else 900
    for n in ns:
        for cache in (False, True):
            for pre in pres:
                if not cache and pre != "none" and q:
                    continue
                cs.append(Cell(M, "h_index", dict(n=n, cache=cache, pre=pre), budget_s=B))
                for sg in (1, -1):
                    cs.append(Cell(M, "h_slice", dict(n=n, cache=cache, pre=pre, step_sign=sg), budget_s=B, max_violations=400))
                for qn in ("contains", "after", "before", "between", "xafter"):
                    cs.append(Cell(M, "h_scan", dict(n=n, cache=cache, pre=pre, query=qn), budget_s=B))
    return cs


ASSUMPTIONS = [
    "carrier: rruleset with n symbolic integer rdates (1..1000, strictly increasing) -- rrulebase's query code only iterates and compares; "
    "real rrule objects as carriers are covered by C01's harness producing the same iterator protocol",
    "h_long / h_replace cells: every input is pinned per path by the solver and the check runs in the native replay (real rrule objects, real cache chunks); replace() oracle = the rule built afresh from the original keyword arguments with the named ones changed",
    "slice bounds / index / count are solver integers in -n-2..n+2 that are pinned per path (the slice object must be concrete); query instants stay symbolic",
]
OUTSIDE = ["step == 0 slices", "symbolic-instant sequences longer than 4 (real rrule carriers go to 25 daily occurrences with pinned inputs)",
           "replace() beyond the listed base rules x named parameters (one or two at a time)"]


def run(tier, seed, jobs):
    cs = report.filter_cells(cells(tier))
    res = chx.run_cells(cs, jobs)
    return report.aggregate("C12", res, assumptions=ASSUMPTIONS, bounds=dict(n_max=4, cells=len(cs)), outside=OUTSIDE)
