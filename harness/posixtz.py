"""Independent POSIX TZ-rule reference (IEEE Std 1003.1, "TZ" in chapter 8) for C08 / C17.

A spec is a dict:
  std: abbreviation, stdoff: seconds EAST of UTC, dst: abbreviation or None, dstoff: seconds east (default std+3600)
  start / end: rule tuples  ("M", month, week(1..5), weekday(0=Sunday..6), time_seconds|None)
                            ("J", n 1..365 (29 Feb never counted), time|None)
                            ("N", n 0..365 (29 Feb counted), time|None)
Daylight time runs from the start rule's time in local STANDARD time to the end rule's time in local DAYLIGHT time.
"""
import datetime

EPOCH_ORD = datetime.date(1970, 1, 1).toordinal()


def is_leap(y):
    return (y % 4 == 0 and y % 100 != 0) or y % 400 == 0


def _rule_day_ordinal(rule, year):
    kind = rule[0]
    if kind == "M":
        _, m, w, d = rule[:4]
        first = datetime.date(year, m, 1)
        # weekday(): Monday=0 ; POSIX d: Sunday=0
        first_wd = (first.weekday() + 1) % 7
        day = 1 + (d - first_wd) % 7 + 7 * (w - 1)
        import calendar
        dim = calendar.monthrange(year, m)[1]
        while day > dim:
            day -= 7
        return datetime.date(year, m, day).toordinal()
    if kind == "J":
        n = rule[1]
        o = datetime.date(year, 1, 1).toordinal() + n - 1
        if is_leap(year) and n >= 60:
            o += 1
        return o
    n = rule[1]
    return datetime.date(year, 1, 1).toordinal() + n


def rule_time(rule):
    t = rule[-1]
    return 7200 if t is None else t


def transitions_utc(spec, year):
    """(start_utc, end_utc) epoch seconds of the year's transitions."""
    so = (_rule_day_ordinal(spec["start"], year) - EPOCH_ORD) * 86400 + rule_time(spec["start"]) - spec["stdoff"]
    eo = (_rule_day_ordinal(spec["end"], year) - EPOCH_ORD) * 86400 + rule_time(spec["end"]) - dstoff(spec)
    return so, eo


def dstoff(spec):
    return spec["dstoff"] if spec.get("dstoff") is not None else spec["stdoff"] + 3600


def breakpoints(spec, years):
    """Sorted [(utc instant, isdst from then on)] over the given years, plus the state before the first one."""
    if not spec.get("dst"):
        return [], 0
    ev = []
    for y in years:
        s, e = transitions_utc(spec, y)
        ev.append((s, 1))
        ev.append((e, 0))
    ev.sort()
    first_state = 1 - ev[0][1]
    return ev, first_state


def render_rule(rule):
    t = rule[-1]
    if rule[0] == "M":
        s = "M%d.%d.%d" % rule[1:4]
    elif rule[0] == "J":
        s = "J%d" % rule[1]
    else:
        s = "%d" % rule[1]
    if t is not None:
        h, rem = divmod(t, 3600)
        mi, se = divmod(rem, 60)
        s += "/%d" % h
        if mi or se:
            s += ":%02d" % mi
        if se:
            s += ":%02d" % se
    return s


def _render_off(secs_east):
    # POSIX: positive means WEST of Greenwich
    v = -secs_east
    sign = "-" if v < 0 else ""
    v = abs(v)
    h, rem = divmod(v, 3600)
    mi, se = divmod(rem, 60)
    s = "%s%d" % (sign, h)
    if mi or se:
        s += ":%02d" % mi
    if se:
        s += ":%02d" % se
    return s


def render(spec):
    s = spec["std"] + _render_off(spec["stdoff"])
    if spec.get("dst"):
        s += spec["dst"]
        if spec.get("dstoff") is not None:
            s += _render_off(spec["dstoff"])
        s += "," + render_rule(spec["start"]) + "," + render_rule(spec["end"])
    return s


def to_relativedelta(rule, isend, spec):
    """The tzrange-style relativedelta (times expressed in STANDARD time) equivalent to a rule -- written from the
    POSIX meaning, not from tzstr._delta."""
    from dateutil import relativedelta as rd
    t = rule_time(rule)
    if isend:
        t -= dstoff(spec) - spec["stdoff"]
    kw = {}
    if rule[0] == "M":
        _, m, w, d = rule[:4]
        wd = (d - 1) % 7          # POSIX Sunday=0 -> dateutil Monday=0
        if w == 5:
            kw.update(month=m, day=31, weekday=rd.weekday(wd, -1))
        else:
            kw.update(month=m, day=1, weekday=rd.weekday(wd, w))
    elif rule[0] == "J":
        kw.update(nlyearday=rule[1])
    else:
        kw.update(yearday=rule[1] + 1)
    return kw, t
