"""C05 wall times are normal / ambiguous / imaginary per PEP 495 (tzfile zones; rule zones in C08/C17 cells)."""
from engine import chx, report, tsdt
from engine.chx import Cell
from harness import tzf

M = "harness.tzf"


def cells(tier, seed):
    q = tier == "quick"
    cs = []
    from harness import c08, posixtz
    specs = [s for s in c08.specs(tier) if s.get("dst") and not (posixtz.rule_time(s["end"]) < posixtz.dstoff(s) - s["stdoff"] or posixtz.rule_time(s["start"]) >= 86400)]
    for spec in specs:
        for kind in ("tzstr", "tzrange", "tzlocal", "tzical:rrule"):
            if kind == "tzstr" and spec.get("no_tzstr"):
                continue
            if kind.startswith("tzical") and not (spec["start"][0] == "M" and spec["end"][0] == "M"):
                continue
            y = 1972 if kind.startswith("tzical") else 2024
            cs.append(Cell("harness.c08", "h_rule", dict(kind=kind, spec=spec, year=y, wallmode=True),
                           name="%s[%s]@%d/wall" % (kind, posixtz.render(spec), y), budget_s=120, per_path_s=20, max_violations=50))
    for (n, p) in tzf.zone_list(tier, seed):
        cs.append(Cell(M, "h_wall", dict(name=n, path=p), name="wall[%s]" % n,
                       budget_s=200 if q else 900, per_path_s=30, max_violations=600))
    return cs


ASSUMPTIONS = [
    "wall times are whole seconds; datetimes are timestamp-backed stand-ins (engine/tsdt.py) validated against real datetime each run",
    "the number of UTC pre-images of a wall time is computed from an independent reading of the file's version-1 block "
    "(u is a pre-image of w iff w - u equals the offset the data assigns to u), as one fork-free formula over all intervals",
    "naive wall time symbolic over [first transition - 8*10**5 s, last transition + 8*10**5 s]",
    "quick tier: fixed awkward zones + 8 seeded; thorough: every distinct TZif file",
]
OUTSIDE = ["sub-second wall times", "rule zones (C08/C17 cells)"]


def run(tier, seed, jobs):
    n, bad = tsdt.validate(seed, 1500)
    errs = [dict(kind="stub-validation", stub="TsDT", sample=repr(b)) for b in bad[:5]]
    cs = report.filter_cells(cells(tier, seed))
    res = chx.run_cells(cs, jobs)
    return report.aggregate("C05", res, assumptions=ASSUMPTIONS, bounds=dict(zones=len(cs)), outside=OUTSIDE,
                            stubs=["TsDT"], extra_errors=errs, stub_validation=dict(TsDT=dict(cases=n, mismatches=len(bad))))
