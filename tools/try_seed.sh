#!/bin/sh
# usage: tools/try_seed.sh PROP PATCH [only-substr] [tier]   -- run one check against a scratch worktree of /repo with PATCH applied
P=$1; PATCH=$2; ONLY=$3; TIER=${4:-quick}
WT=/tmp/wt/try_$$
git -C /repo worktree add -q --detach $WT HEAD || exit 9
git -C $WT apply "$PATCH" || { git -C /repo worktree remove --force $WT; exit 9; }
cd /verif
if [ -n "$ONLY" ]; then
  VERIF_REPO_SRC=$WT/src VERIF_OUT_DIR=/tmp/wt/out_try_$$ ./check $P --tier $TIER --only "$ONLY" 2>&1 | grep -E "^(violation|summary|VIOLATION|ENGINE|INCONCL)" | cut -c1-260 | sort | uniq -c | sort -rn | head -12
else
  VERIF_REPO_SRC=$WT/src VERIF_OUT_DIR=/tmp/wt/out_try_$$ ./check $P --tier $TIER 2>&1 | grep -E "^(violation|summary|VIOLATION|ENGINE|INCONCL)" | cut -c1-260 | sort | uniq -c | sort -rn | head -12
fi
git -C /repo worktree remove --force $WT; rm -rf /tmp/wt/out_try_$$
