"""Symbolic-digit tokens for dateutil's generic parser.

A text handed to parse() is a SymText: a template of literal pieces and digit positions whose values are solver
variables.  The lexer's behaviour depends only on character classes, so the token STRUCTURE of a SymText is
obtained by running the real lexer on a representative rendering (every digit '1'); the stub of
_timelex.split maps each all-digit token of that run back to a NumTok holding the symbolic digits.  (The
equality "lexer output depends only on character classes" is what this stub assumes; it is checked each run by
lexing several concrete renderings of every template and comparing the token shapes.)

NumTok implements the str operations the parser applies to numeric tokens; Decimal / int / float as seen from
dateutil.parser._parser are rebound to models that understand NumTok (and behave as the originals otherwise).
"""
import decimal

from engine import sym as S


class NumTok(object):
    """digits: list of ints (possibly symbolic) ; dot: index of a '.' inside the token or None."""
    __slots__ = ("digs", "dot")

    def __init__(self, digs, dot=None):
        self.digs = list(digs)
        self.dot = dot

    # -- str-like structure (all concrete)
    def __len__(self):
        return len(self.digs) + (0 if self.dot is None else 1)

    def _chars(self):
        out = []
        k = 0
        for i in range(len(self)):
            if self.dot is not None and i == self.dot:
                out.append(".")
            else:
                out.append(self.digs[k])
                k += 1
        return out

    @staticmethod
    def _from_chars(chars):
        if not chars:
            return ""
        if chars == ["."]:
            return "."
        dots = [i for i, c in enumerate(chars) if isinstance(c, str)]
        if len(dots) > 1:
            raise TypeError("NumTok with two dots is not modelled")
        return NumTok([c for c in chars if not isinstance(c, str)], dots[0] if dots else None)

    def __getitem__(self, key):
        chars = self._chars()
        if isinstance(key, slice):
            return NumTok._from_chars(chars[key])
        return NumTok._from_chars([chars[key]])

    def __iter__(self):
        for c in self._chars():
            yield NumTok._from_chars([c])

    def isdigit(self):
        return self.dot is None and len(self.digs) > 0

    def find(self, sub):
        if sub == ".":
            return -1 if self.dot is None else self.dot
        raise TypeError("NumTok.find(%r) not modelled" % (sub,))

    def count(self, sub):
        if sub == ".":
            return 0 if self.dot is None else 1
        raise TypeError("NumTok.count(%r) not modelled" % (sub,))

    def __contains__(self, sub):
        if sub in (".", ","):
            return sub == "." and self.dot is not None
        raise TypeError("%r in NumTok not modelled" % (sub,))

    def split(self, sep):
        if sep != ".":
            raise TypeError("NumTok.split(%r) not modelled" % (sep,))
        if self.dot is None:
            return [self]
        chars = self._chars()
        return [NumTok._from_chars(chars[:self.dot]), NumTok._from_chars(chars[self.dot + 1:])]

    def ljust(self, n, fill):
        if fill != "0" or self.dot is not None:
            raise TypeError("NumTok.ljust not modelled for this case")
        return NumTok(self.digs + [0] * max(0, n - len(self.digs)))

    def lower(self):
        return self

    def replace(self, a, b):
        if a == "," and self.dot is None:
            return self
        raise TypeError("NumTok.replace not modelled")

    def __hash__(self):
        return 0x5EED          # all numeric tokens collide: dict lookups fall through to __eq__

    def __eq__(self, other):
        if isinstance(other, str):
            if len(other) != len(self) or not other:
                return False
            oc = list(other)
            mine = self._chars()
            conds = []
            for a, b in zip(mine, oc):
                if isinstance(a, str):
                    if a != b:
                        return False
                elif not ("0" <= b <= "9"):
                    return False
                else:
                    conds.append(S.eq(a, ord(b) - 48))
            return S.and_(*conds) if conds else True
        if type(other) is NumTok:
            if len(other) != len(self) or other.dot != self.dot:
                return False
            return S.and_(*[S.eq(a, b) for a, b in zip(self.digs, other.digs)])
        return NotImplemented

    def __ne__(self, other):
        r = self.__eq__(other)
        return r if r is NotImplemented else S.not_(r)

    def __repr__(self):
        return "NumTok(%d digits%s)" % (len(self.digs), "" if self.dot is None else ", dot@%d" % self.dot)

    def __str__(self):
        return "<digits>"

    # -- values
    def int_value(self):
        if self.dot is not None or not self.digs:
            raise ValueError("invalid literal for int() (model): %r" % (self,))
        n = len(self.digs)
        return S.add(*[S.mulc(d, 10 ** (n - 1 - i)) for i, d in enumerate(self.digs)])

    def render(self, concrete_digits):
        return "".join(c if isinstance(c, str) else str(int(c)) for c in NumTok(concrete_digits, self.dot)._chars())


class SymDec(object):
    """Exact decimal of a NumTok: integer part ip (symbolic int), fraction = fnum / 10**fk."""

    def __init__(self, ip, fnum=0, fk=0, ndig=0):
        self.ip, self.fnum, self.fk, self.ndig = ip, fnum, fk, ndig

    def is_finite(self):
        return True

    def _scaled(self):
        return S.add(S.mulc(self.ip, 10 ** self.fk), self.fnum), 10 ** self.fk

    def _cmp_scaled(self, other):
        num, den = self._scaled()
        if isinstance(other, SymDec):
            on, od = other._scaled()
            return S.mulc(num, od), S.mulc(on, den)
        return num, S.mulc(other, den) if not isinstance(other, int) else other * den

    def __lt__(self, o):
        a, b = self._cmp_scaled(o)
        return S.lt(a, b)

    def __le__(self, o):
        a, b = self._cmp_scaled(o)
        return S.le(a, b)

    def __gt__(self, o):
        a, b = self._cmp_scaled(o)
        return S.lt(b, a)

    def __ge__(self, o):
        a, b = self._cmp_scaled(o)
        return S.le(b, a)

    def __eq__(self, o):
        if isinstance(o, (int, SymDec)) or hasattr(o, "var"):
            a, b = self._cmp_scaled(o)
            return S.eq(a, b)
        return NotImplemented

    def __hash__(self):
        return 1

    def __mod__(self, m):
        if m != 1:
            raise TypeError("SymDec %% %r not modelled" % (m,))
        # decimal's default context has 28 digits of precision: x % 1 needs the integer quotient to fit
        if S.le(10 ** 28, self.ip):
            raise decimal.InvalidOperation([decimal.DivisionImpossible])
        return SymDec(0, self.fnum, self.fk)

    def __rmul__(self, k):
        if not isinstance(k, int):
            raise TypeError("SymDec * %r not modelled" % (k,))
        num, den = self._scaled()
        return _Ratio(S.mulc(num, k), den)

    __mul__ = __rmul__

    def __bool__(self):
        num, _ = self._scaled()
        return bool(S.not_(S.eq(num, 0)))

    def int_value(self):
        return self.ip

    def __repr__(self):
        return "SymDec(...)"


class _Ratio(object):
    def __init__(self, num, den):
        self.num, self.den = num, den

    def int_value(self):
        return S.div(self.num, self.den)          # non-negative here: truncation == floor


def dec_model(real_decimal):
    def Decimal(val=0, *a):
        if type(val) is NumTok:
            chars = val._chars()
            if val.dot is None:
                return SymDec(val.int_value(), 0, 0, len(val.digs))
            ipd = [c for c in chars[:val.dot]]
            fd = [c for c in chars[val.dot + 1:]]
            ip = NumTok(ipd).int_value() if ipd else 0
            fn = NumTok(fd).int_value() if fd else 0
            return SymDec(ip, fn, len(fd), len(ipd))
        if isinstance(val, SymDec):
            return val
        return real_decimal(val, *a)
    return Decimal


def int_model(real_int):
    def int_(x=0, *a):
        if not a:
            if type(x) is NumTok:
                return x.int_value()
            if isinstance(x, (SymDec, _Ratio)):
                return x.int_value()
        return real_int(x, *a)
    int_.__name__ = "int"
    return int_


def float_model(real_float):
    def float_(x=0.0):
        if type(x) is NumTok:
            return 1.0           # only its None-ness is used by _parse
        return real_float(x)
    return float_


class SymText(object):
    """template: list of str pieces and ('d', name) digit positions; digits: dict name -> (symbolic) int 0..9."""

    def __init__(self, template, digits):
        self.template, self.digits = template, digits

    def render(self, values=None):
        vals = values if values is not None else self.digits
        return "".join(p if isinstance(p, str) else str(int(vals[p[1]])) for p in self.template)

    def representative(self):
        return "".join(p if isinstance(p, str) else "1" for p in self.template)

    def read(self, *a):          # so that the lexer's type gate would accept it; never actually read
        raise TypeError("SymText is consumed by the split stub")

    def __repr__(self):
        return "SymText(%r)" % (self.representative(),)

    __str__ = __repr__


def split_stub(real_split):
    """_timelex.split for SymText: token structure from the real lexer on the representative rendering."""
    def split(s):
        if not isinstance(s, SymText):
            return real_split(s)
        rep = s.representative()
        toks = real_split(rep)
        # walk the representative and the template in parallel to find which digit names each token holds
        names = []          # per character of rep: digit name or None
        for p in s.template:
            if isinstance(p, str):
                names.extend([None] * len(p))
            else:
                names.append(p[1])
        out = []
        pos = 0
        for t in toks:
            # the lexer may drop NULs / normalise spaces and ',' -> '.': locate the token by scanning forward
            span = len(t)
            # find t (modulo ','->'.' and whitespace collapsing) starting at pos
            while pos < len(rep) and not _match(rep, pos, t):
                pos += 1
            if pos >= len(rep):
                raise TypeError("split stub lost track of token %r" % (t,))
            tn = names[pos:pos + span]
            if any(n is not None for n in tn):
                if any((n is None) and (t[i] not in ".0123456789") for i, n in enumerate(tn)):
                    raise TypeError("token %r mixes digits and letters: not modelled" % (t,))
                digs = [(s.digits[n] if n is not None else int(t[i])) for i, n in enumerate(tn) if t[i] != "."]
                dots = [i for i, ch in enumerate(t) if ch == "."]
                if len(dots) > 1:
                    raise TypeError("numeric token with two dots: not modelled")
                out.append(NumTok(digs, dots[0] if dots else None))
            else:
                out.append(t)
            pos += span
        return out
    return split


def _match(rep, pos, t):
    seg = rep[pos:pos + len(t)]
    if len(seg) != len(t):
        return False
    for a, b in zip(seg, t):
        if a == b or (a == "," and b == ".") or (a.isspace() and b == " "):
            continue
        return False
    return True
