"""Independent brute-force reference for RFC 5545 recurrence rules (the subset and reading dateutil documents).

gen(params, start, limit) yields the occurrences in order.  Written from the definitions: a period of FREQ
(aligned to the start's period, every INTERVAL-th one), the days of the period filtered by every BY-part at
day level (defaults taken from the start when none of BYWEEKNO/BYYEARDAY/BYMONTHDAY/BYDAY/BYEASTER is given),
times = BYHOUR x BYMINUTE x BYSECOND (defaults from the start; at and above the rule's frequency the period's
own value, filtered), BYSETPOS over the period's sorted candidate list, then >= start, COUNT, UNTIL.
No dateutil code is used (easter is re-implemented).
"""
import datetime as D

YEARLY, MONTHLY, WEEKLY, DAILY, HOURLY, MINUTELY, SECONDLY = range(7)
MAXORD = D.date.max.toordinal()


def _easter(y):
    a = y % 19
    b, c = divmod(y, 100)
    d, e = divmod(b, 4)
    f = (b + 8) // 25
    g = (b - f + 1) // 3
    h = (19 * a + b - d - g + 15) % 30
    i, k = divmod(c, 4)
    l = (32 + 2 * e + 2 * i - h - k) % 7
    m = (a + 11 * h + 22 * l) // 451
    n = h + l - 7 * m + 114
    return D.date(y, n // 31, n % 31 + 1)


def _isleap(y):
    return (y % 4 == 0 and y % 100 != 0) or y % 400 == 0


def _ylen(y):
    return 366 if _isleap(y) else 365


def _dim(y, m):
    return [31, 29 if _isleap(y) else 28, 31, 30, 31, 30, 31, 31, 30, 31, 30, 31][m - 1]


def _week1_start(y, wkst):
    """ordinal of the first day of week 1 of `y`: weeks start on wkst, week 1 is the first with >= 4 days in y."""
    jan1 = D.date(y, 1, 1).toordinal()
    wd = (jan1 + 6) % 7
    off = (wkst - wd) % 7            # days until the first wkst on/after 1 Jan
    first = jan1 + off
    if off >= 4:                     # the partial week before it has >= 4 days in this year: it is week 1
        first -= 7
    return first


def _weekno(o, wkst):
    """(week-year, week number, weeks in that week-year) of ordinal o."""
    y = D.date.fromordinal(o).year
    for wy in (y + 1, y, y - 1):
        if wy < 1 or wy > 9999:
            continue
        s = _week1_start(wy, wkst)
        e = _week1_start(wy + 1, wkst) if wy < 9999 else s + 53 * 7
        if s <= o < e:
            return wy, (o - s) // 7 + 1, (e - s) // 7
    return None


class Params(object):
    def __init__(self, freq, interval=1, wkst=0, count=None, until=None, bysetpos=None, bymonth=None,
                 bymonthday=None, byyearday=None, byeaster=None, byweekno=None, byweekday=None, byhour=None,
                 byminute=None, bysecond=None):
        self.freq, self.interval, self.wkst, self.count, self.until = freq, interval, wkst, count, until
        tup = lambda v: None if v is None else (tuple(v) if isinstance(v, (tuple, list, set)) else (v,))
        self.bysetpos, self.bymonth, self.bymonthday, self.byyearday = tup(bysetpos), tup(bymonth), tup(bymonthday), tup(byyearday)
        self.byeaster, self.byweekno, self.byhour, self.byminute, self.bysecond = tup(byeaster), tup(byweekno), tup(byhour), tup(byminute), tup(bysecond)
        # weekdays: ints or (wd, n) pairs
        wds = tup(byweekday)
        self.plainwd, self.nthwd = None, None
        if wds is not None:
            pl, nt = set(), set()
            for w in wds:
                if isinstance(w, int):
                    pl.add(w)
                else:
                    wd, n = w
                    if not n or freq > MONTHLY:
                        pl.add(wd)
                    else:
                        nt.add((wd, n))
            self.plainwd = pl or None
            self.nthwd = nt or None


def _day_ok(p, o, start):
    d = D.date.fromordinal(o)
    y, m, dd = d.year, d.month, d.day
    wd = (o + 6) % 7
    yday = o - D.date(y, 1, 1).toordinal() + 1
    bymonth, bymonthday = p.bymonth, p.bymonthday
    plain = p.plainwd
    if (p.byweekno is None and p.byyearday is None and p.bymonthday is None and p.plainwd is None and p.nthwd is None
            and p.byeaster is None):
        if p.freq == YEARLY:
            if bymonth is None:
                bymonth = (start.month,)
            bymonthday = (start.day,)
        elif p.freq == MONTHLY:
            bymonthday = (start.day,)
        elif p.freq == WEEKLY:
            plain = {start.weekday()}
    if bymonth is not None and m not in bymonth:
        return False
    if bymonthday is not None:
        if not (dd in bymonthday or dd - _dim(y, m) - 1 in bymonthday):
            return False
    if p.byyearday is not None:
        if not (yday in p.byyearday or yday - _ylen(y) - 1 in p.byyearday):
            return False
    if p.byweekno is not None:
        r = _weekno(o, p.wkst)
        if r is None:
            return False
        _wy, wn, nw = r
        if not (wn in p.byweekno or wn - nw - 1 in p.byweekno):
            return False
    if plain is not None and p.nthwd is None and wd not in plain:
        return False
    if p.nthwd is not None:
        # nth weekday within the month (MONTHLY, or YEARLY with BYMONTH) or within the year (YEARLY)
        ok = False
        if p.freq == MONTHLY or (p.freq == YEARLY and p.bymonth is not None):
            before, after = (dd - 1) // 7, (_dim(y, m) - dd) // 7
        elif p.freq == YEARLY:
            before, after = (yday - 1) // 7, (_ylen(y) - yday) // 7
        else:
            before = after = None
        if before is not None:
            for (w, n) in p.nthwd:
                if w == wd and ((n > 0 and before + 1 == n) or (n < 0 and after + 1 == -n)):
                    ok = True
        if plain is not None and wd in plain:
            ok = True          # plain and nth members of BYDAY are alternatives (a union)
        if not ok:
            return False
    if p.byeaster is not None:
        if o - _easter(y).toordinal() not in p.byeaster:
            return False
    return True


def _period_days(p, start, k):
    """ordinals of the days of the k-th selected period (k counts selected periods: 0, interval, 2*interval...)."""
    so = start.toordinal()
    n = k * p.interval
    if p.freq == YEARLY:
        y = start.year + n
        if y > 9999:
            return None
        a = D.date(y, 1, 1).toordinal()
        return list(range(a, a + _ylen(y)))
    if p.freq == MONTHLY:
        t = start.year * 12 + start.month - 1 + n
        y, m = divmod(t, 12)
        m += 1
        if y > 9999:
            return None
        a = D.date(y, m, 1).toordinal()
        return list(range(a, a + _dim(y, m)))
    if p.freq == WEEKLY:
        ws = so - ((so + 6) % 7 - p.wkst) % 7 + 7 * n
        return [o for o in range(ws, ws + 7) if 1 <= o <= MAXORD] if ws <= MAXORD else None
    o = so + n if p.freq == DAILY else None
    return o


def gen(p, start, limit=10, horizon_periods=4000):
    """start: datetime (naive or aware).  Yields up to `limit` occurrences."""
    start = start.replace(microsecond=0)
    tz = start.tzinfo
    out = 0
    total = 0
    byhour = p.byhour if p.byhour is not None else ((start.hour,) if p.freq < HOURLY else None)
    byminute = p.byminute if p.byminute is not None else ((start.minute,) if p.freq < MINUTELY else None)
    bysecond = p.bysecond if p.bysecond is not None else ((start.second,) if p.freq < SECONDLY else None)
    naive_start = start.replace(tzinfo=None)
    until = p.until
    if until is not None and not isinstance(until, D.datetime):
        until = D.datetime(until.year, until.month, until.day)
    if until is not None:
        until = until.replace(tzinfo=None) if tz is None else until.astimezone(tz).replace(tzinfo=None)
    for k in range(horizon_periods):
        cands = []
        if p.freq <= DAILY:
            days = _period_days(p, naive_start, k)
            if days is None:
                return
            if isinstance(days, int):
                if days > MAXORD:
                    return
                days = [days]
            for o in days:
                if _day_ok(p, o, naive_start):
                    d = D.date.fromordinal(o)
                    for h in sorted(set(byhour)):
                        for mi in sorted(set(byminute)):
                            for s in sorted(set(bysecond)):
                                cands.append(D.datetime(d.year, d.month, d.day, h, mi, s))
        else:
            unit = {HOURLY: 3600, MINUTELY: 60, SECONDLY: 1}[p.freq]
            base = naive_start.replace(minute=0, second=0) if p.freq == HOURLY else (
                naive_start.replace(second=0) if p.freq == MINUTELY else naive_start)
            try:
                t0 = base + D.timedelta(seconds=unit * p.interval * k)
            except OverflowError:
                return
            if _day_ok(p, t0.toordinal(), naive_start):
                hs = [t0.hour] if (p.byhour is None or t0.hour in p.byhour) else []
                if p.freq == HOURLY:
                    mins, secs = sorted(set(byminute)), sorted(set(bysecond))
                elif p.freq == MINUTELY:
                    mins = [t0.minute] if (p.byminute is None or t0.minute in p.byminute) else []
                    secs = sorted(set(bysecond))
                else:
                    mins = [t0.minute] if (p.byminute is None or t0.minute in p.byminute) else []
                    secs = [t0.second] if (p.bysecond is None or t0.second in p.bysecond) else []
                for h in hs:
                    for mi in mins:
                        for s in secs:
                            cands.append(D.datetime(t0.year, t0.month, t0.day, h, mi, s))
        cands.sort()
        if p.bysetpos is not None:
            sel = []
            for pos in p.bysetpos:
                try:
                    c = cands[pos - 1] if pos > 0 else cands[pos]
                except IndexError:
                    continue
                if c not in sel:
                    sel.append(c)
            cands = sorted(sel)
        for c in cands:
            if until is not None and c > until:
                return
            if c >= naive_start:
                if p.count is not None and total >= p.count:
                    return
                total += 1
                yield c.replace(tzinfo=tz)
                out += 1
                if out >= limit:
                    return
        if p.count is not None and total >= p.count:
            return
