#!/usr/bin/env python3
"""Development aid: run a check against a scratch copy of /repo/src with one textual replacement.
usage: try_mutant.py PROP relpath OLD NEW [extra check args...]   (OLD must occur exactly once)"""
import os, shutil, subprocess, sys, tempfile
prop, rel, old, new = sys.argv[1:5]
extra = sys.argv[5:]
d = tempfile.mkdtemp(prefix="mut_", dir=os.environ.get("TMPDIR", "/tmp"))
try:
    shutil.copytree("/repo/src", os.path.join(d, "src"))
    p = os.path.join(d, "src", rel)
    s = open(p).read()
    assert s.count(old) == 1, "OLD occurs %d times" % s.count(old)
    open(p, "w").write(s.replace(old, new))
    env = dict(os.environ, VERIF_REPO_SRC=os.path.join(d, "src"))
    here = os.path.dirname(os.path.dirname(os.path.abspath(__file__)))
    r = subprocess.run([os.path.join(here, "check"), prop] + extra + ["--only", os.environ.get("ONLY", "")] if os.environ.get("ONLY") else [os.path.join(here, "check"), prop] + extra, env=env, cwd=here)
    print("exit", r.returncode)
finally:
    shutil.rmtree(d, ignore_errors=True)
