"""TsDT / TsTD -- timestamp-backed stand-ins for datetime / timedelta values handed to tz code by a harness.

CrossHair's field-based datetime costs ~100 solver calls per `dt - EPOCH`; dateutil's tz code only needs
whole-second wall-clock arithmetic, comparisons, replace(tzinfo=, fold=), utcoffset()/dst()/tzname(),
astimezone() and (for rule zones) .year.  A TsDT is (seconds since 1970-01-01 as a possibly symbolic int,
tzinfo, fold).  Whole-second resolution; sub-second instants are outside the claims that use it.

The shim is validated against real datetime on every run (validate()).
"""
import datetime as _dt

from engine import sym as S

EPOCH = _dt.datetime(1970, 1, 1)
_KEEP = object()


def _tools():
    from crosshair.tracers import NoTracing
    return NoTracing


def _secs_of_td(td):
    if type(td) is TsTD:
        return td.secs
    # real / CrossHair timedelta with concrete or symbolic fields (whole seconds)
    return td.days * 86400 + td.seconds


def _ts_of(d):
    if type(d) is TsDT:
        return d.ts
    # real datetime (concrete): naive wall reading
    return (d.toordinal() - 719163) * 86400 + d.hour * 3600 + d.minute * 60 + d.second


_YEAR_STARTS = None


def _year_starts():
    global _YEAR_STARTS
    if _YEAR_STARTS is None:
        _YEAR_STARTS = [(_dt.date(y, 1, 1).toordinal() - 719163) * 86400 for y in range(1, 10000)]
        _YEAR_STARTS.append(_YEAR_STARTS[-1] + 365 * 86400)
    return _YEAR_STARTS


class TsTD(object):
    __slots__ = ("secs",)

    def __init__(self, secs):
        self.secs = secs

    def total_seconds(self):
        return self.secs

    @property
    def days(self):
        return S.div(S.add(self.secs, 86400 * 4000000), 86400) - 4000000

    @property
    def seconds(self):
        return S.mod(S.add(self.secs, 86400 * 4000000), 86400)

    microseconds = 0

    def __eq__(self, other):
        if type(other) is TsTD or isinstance(other, _dt.timedelta):
            return self.secs == _secs_of_td(other)
        return NotImplemented

    def __ne__(self, other):
        r = self.__eq__(other)
        return r if r is NotImplemented else not r

    def __lt__(self, other):
        return self.secs < _secs_of_td(other)

    def __le__(self, other):
        return self.secs <= _secs_of_td(other)

    def __gt__(self, other):
        return self.secs > _secs_of_td(other)

    def __ge__(self, other):
        return self.secs >= _secs_of_td(other)

    def __neg__(self):
        return TsTD(-self.secs)

    def __add__(self, other):
        if type(other) is TsDT:
            return other + self
        return TsTD(self.secs + _secs_of_td(other))

    __radd__ = __add__

    def __sub__(self, other):
        return TsTD(self.secs - _secs_of_td(other))

    def __rsub__(self, other):
        return TsTD(_secs_of_td(other) - self.secs)

    def __pos__(self):
        return self

    def __abs__(self):
        return TsTD(S.ite(S.lt(self.secs, 0), S.sub(0, self.secs), self.secs))

    def __mul__(self, k):
        if isinstance(k, int) and not isinstance(k, bool):
            return TsTD(self.secs * k)
        return NotImplemented

    __rmul__ = __mul__

    def __floordiv__(self, other):
        if isinstance(other, int) and not isinstance(other, bool) and other > 0:
            return TsTD(S.div(self.secs, other))
        return NotImplemented

    def __bool__(self):
        return bool(self.secs != 0)

    def __hash__(self):
        return hash(self.secs)

    def __repr__(self):
        return "TsTD(%r)" % (self.secs,)

    def __ch_pytype__(self):
        return _dt.timedelta

    def __ch_realize__(self):
        from crosshair.core import realize
        return _dt.timedelta(seconds=realize(self.secs))


class TsDT(_dt.datetime):
    """Subclass of datetime so that isinstance checks in dateutil pass (natively and under the tracer); every
    operation dateutil's tz code uses is overridden -- the inherited C fields (1970-01-01) are never read."""

    def __new__(cls, ts, tzinfo=None, fold=0, year_hint=None):
        return _dt.datetime.__new__(cls, 1970, 1, 1)

    def __init__(self, ts, tzinfo=None, fold=0, year_hint=None):
        self.ts = ts
        self._tz = tzinfo
        self._fold = fold
        self.year_hint = year_hint

    # -- attributes
    @property
    def tzinfo(self):
        return self._tz

    @property
    def fold(self):
        return self._fold

    @property
    def year(self):
        ys = _year_starts()
        h = self.year_hint
        if h is not None:
            for y in (h, h + 1, h - 1):
                if 1 <= y <= 9999 and ys[y - 1] <= self.ts < ys[y]:
                    return y
        lo, hi = 1, 9999
        while lo < hi:                       # binary search over concrete year starts (symbolic comparisons)
            mid = (lo + hi + 1) // 2
            if self.ts >= ys[mid - 1]:
                lo = mid
            else:
                hi = mid - 1
        return lo

    microsecond = 0

    def _unsupported(self, *a, **k):
        raise TypeError("TsDT: calendar-field access is not modelled")
    month = property(_unsupported)
    day = property(_unsupported)
    hour = property(_unsupported)
    minute = property(_unsupported)
    second = property(_unsupported)
    toordinal = timetuple = utctimetuple = date = time = timetz = isoformat = strftime = weekday = _unsupported

    def replace(self, tzinfo=_KEEP, fold=_KEEP, **kw):
        if kw:
            raise TypeError("TsDT.replace supports only tzinfo= and fold= (got %r)" % (sorted(kw),))
        return TsDT(self.ts, self._tz if tzinfo is _KEEP else tzinfo, self._fold if fold is _KEEP else fold,
                    self.year_hint)

    def utcoffset(self):
        return None if self._tz is None else self._tz.utcoffset(self)

    def dst(self):
        return None if self._tz is None else self._tz.dst(self)

    def tzname(self):
        return None if self._tz is None else self._tz.tzname(self)

    # -- arithmetic
    def __add__(self, other):
        if type(other) is TsTD or isinstance(other, _dt.timedelta):
            return TsDT(self.ts + _secs_of_td(other), self._tz, 0, self.year_hint)
        return NotImplemented

    __radd__ = __add__

    def __sub__(self, other):
        if type(other) is TsTD or isinstance(other, _dt.timedelta):
            return TsDT(self.ts - _secs_of_td(other), self._tz, 0, self.year_hint)
        if type(other) is TsDT or isinstance(other, _dt.datetime):
            base = TsTD(self.ts - _ts_of(other))
            otz = other.tzinfo
            if self._tz is otz:
                return base
            if self._tz is None or otz is None:
                raise TypeError("can't subtract offset-naive and offset-aware datetimes")
            return base + other.utcoffset() - self.utcoffset()
        return NotImplemented

    def __rsub__(self, other):
        if isinstance(other, _dt.datetime):
            return TsTD(_ts_of(other) - self.ts)
        return NotImplemented

    def _cmp_ts(self, other):
        if type(other) is TsDT or isinstance(other, _dt.datetime):
            if (self._tz is None) != (other.tzinfo is None):
                raise TypeError("can't compare offset-naive and offset-aware datetimes")
            if self._tz is None or self._tz is other.tzinfo:
                return self.ts, _ts_of(other)
            return self.ts - _secs_of_td(self.utcoffset()), _ts_of(other) - _secs_of_td(other.utcoffset())
        return None

    def __eq__(self, other):
        c = self._cmp_ts(other)
        return NotImplemented if c is None else c[0] == c[1]

    def __ne__(self, other):
        c = self._cmp_ts(other)
        return NotImplemented if c is None else c[0] != c[1]

    def __lt__(self, other):
        c = self._cmp_ts(other)
        return NotImplemented if c is None else c[0] < c[1]

    def __le__(self, other):
        c = self._cmp_ts(other)
        return NotImplemented if c is None else c[0] <= c[1]

    def __gt__(self, other):
        c = self._cmp_ts(other)
        return NotImplemented if c is None else c[0] > c[1]

    def __ge__(self, other):
        c = self._cmp_ts(other)
        return NotImplemented if c is None else c[0] >= c[1]

    __hash__ = None

    def astimezone(self, tz):
        """The documented algorithm: subtract own offset, attach the target, call its fromutc()."""
        if self._tz is None:
            raise ValueError("TsDT.astimezone on a naive value is not modelled (it would consult the local zone)")
        if tz is self._tz:
            return self
        off = self.utcoffset()
        utc = TsDT(self.ts - _secs_of_td(off), tz, 0, self.year_hint)
        return tz.fromutc(utc)

    def __repr__(self):
        return "TsDT(%r, %r, fold=%r)" % (self.ts, self._tz, self._fold)

    def __ch_realize__(self):
        from crosshair.core import realize
        return to_real(TsDT(realize(self.ts), self._tz, realize(self._fold)))

    def __reduce__(self):
        return (TsDT, (self.ts, self._tz, self._fold, self.year_hint))

    def __deepcopy__(self, memo):
        return TsDT(self.ts, self._tz, self._fold, self.year_hint)

    def __copy__(self):
        return TsDT(self.ts, self._tz, self._fold, self.year_hint)


_INSTALLED = False


def install():
    """CrossHair's datetime model compares field tuples; against a TsDT it must defer to the shim's
    timestamp comparison (return NotImplemented so Python tries the reflected operation)."""
    global _INSTALLED
    if _INSTALLED:
        return
    _INSTALLED = True
    from crosshair.libimpl import datetimelib as dl

    def wrap(name):
        orig = getattr(dl.datetime, name)

        def op(self, other):
            if type(other) is TsDT:
                return NotImplemented
            return orig(self, other)
        op.__name__ = name
        setattr(dl.datetime, name, op)
    for nm in ("__eq__", "__ne__", "__lt__", "__le__", "__gt__", "__ge__", "__sub__"):
        wrap(nm)


def to_real(d):
    """TsDT with concrete fields -> real datetime."""
    return (EPOCH + _dt.timedelta(seconds=int(d.ts))).replace(tzinfo=d.tzinfo, fold=int(d.fold))


def mk(ctx, ts, tzinfo=None, fold=0, year_hint=None):
    """Harness-side constructor: the shim under the tracer, a real datetime natively."""
    if ctx.symbolic:
        install()
        return TsDT(ts, tzinfo, fold, year_hint)
    return (EPOCH + _dt.timedelta(seconds=ts)).replace(tzinfo=tzinfo, fold=fold)


def ts_of(d):
    """Wall-clock seconds since the epoch of a TsDT or a real datetime."""
    return _ts_of(d)


def secs(td):
    return _secs_of_td(td)


def validate(seed=0, n=2000):
    """Randomised differential test of the shim against real datetime (concrete values)."""
    import random
    from dateutil import tz
    rnd = random.Random(seed)
    zones = [None, tz.tzutc(), tz.tzoffset("X", 3600 * 5 + 30), tz.gettz("America/New_York"), tz.tzstr("EST5EDT")]
    bad = []
    for _ in range(n):
        ts = rnd.randint(-2 * 10 ** 9, 4 * 10 ** 9)
        z = rnd.choice(zones)
        f = rnd.randint(0, 1)
        a = TsDT(ts, z, f)
        r = to_real(a)
        d = rnd.randint(-10 ** 6, 10 ** 6)
        td = _dt.timedelta(seconds=d)
        checks = [
            (ts_of(a + td), ts_of(r + td)),
            (ts_of(a - td), ts_of(r - td)),
            (a.year, r.year),
            ((a - EPOCH.replace(tzinfo=z)).total_seconds(), (r - EPOCH.replace(tzinfo=z)).total_seconds()),
        ]
        if z is not None:
            checks.append((secs(a.utcoffset()), secs(r.utcoffset())))
            checks.append((a.tzname(), r.tzname()))
            w = a.astimezone(tz.tzutc())
            wr = r.astimezone(tz.tzutc())
            checks.append((ts_of(w), ts_of(wr.replace(tzinfo=None))))
            z2 = zones[3]
            w2, w2r = a.astimezone(z2), r.astimezone(z2)
            checks.append((ts_of(w2), ts_of(w2r.replace(tzinfo=None))))
            checks.append((int(w2.fold), w2r.fold))
        b = TsDT(ts + d, z, 0)
        checks.append((bool(a < b), to_real(a).replace(fold=0) < to_real(b) if z is None else bool(d > 0)))
        for got, exp in checks:
            if got != exp:
                bad.append((ts, str(z), f, d, got, exp))
                break
    return n, bad
