"""Independent reference computations for C19, written in the integer subset that engine/astbv.py
translates -- the same text is run natively (replay) and translated to SMT (obligations)."""


def mjb(y):
    # Meeus / Jones / Butcher Gregorian computus ("Astronomical Algorithms", ch. 8)
    a = y % 19
    b = y // 100
    c = y % 100
    d = b // 4
    e = b % 4
    f = (b + 8) // 25
    g = (b - f + 1) // 3
    h = (19 * a + b - d - g + 15) % 30
    i = c // 4
    k = c % 4
    l = (32 + 2 * e + 2 * i - h - k) % 7
    m = (a + 11 * h + 22 * l) // 451
    n = h + l - 7 * m + 114
    return (n // 31, n % 31 + 1)


def meeus_julian(y):
    # Meeus' Julian-calendar Easter
    a = y % 4
    b = y % 7
    c = y % 19
    d = (19 * c + 15) % 30
    e = (2 * a + 4 * b - d + 34) % 7
    n = d + e + 114
    return (n // 31, n % 31 + 1)


def greg_dow(y, m, d):
    # proleptic Gregorian ordinal (0001-01-01 == 1, a Monday) reduced mod 7 for a date in March..May.
    # ordinal = 365*p + p//4 - p//100 + p//400 + days_before_month + d with p = y - 1, and 365 = 52*7 + 1,
    # so ordinal % 7 == (p + p//4 - p//100 + p//400 + days_before_month + d) % 7.   0 <=> Sunday.
    p = y - 1
    leap = 0
    if y % 4 == 0 and (y % 100 != 0 or y % 400 == 0):
        leap = 1
    before = 59 + leap
    if m == 4:
        before = 90 + leap
    if m == 5:
        before = 120 + leap
    return (p + p // 4 - p // 100 + p // 400 + before + d) % 7


def julian_to_gregorian(y, m, d):
    # a Julian-calendar date in March/April of year y (1583..4099) expressed in the Gregorian calendar:
    # the calendars differ by y//100 - y//400 - 2 days for dates after February
    n = d + y // 100 - y // 400 - 2
    if m == 4:
        n = n + 31
    # n = day number counted from March 0
    rm = 3
    if n > 31:
        rm = 4
        n = n - 31
        if n > 30:
            rm = 5
            n = n - 30
    return (rm, n)


def month_len_ok(m, d):
    # valid (month, day) for March..May
    ok = 0
    if m == 3 and 1 <= d and d <= 31:
        ok = 1
    if m == 4 and 1 <= d and d <= 30:
        ok = 1
    if m == 5 and 1 <= d and d <= 31:
        ok = 1
    return ok
