"""C06 tzfile reports exactly what the TZif data says at every instant.

(a) installed database: every instant between the first and last transition vs an independent reading of the
    version-1 block (harness.tzf.h_utc with the c06 clauses);
(b) symbolic TZif content: the transition times, type indices and ttinfo triples of a small file are solver
    variables -- struct.unpack as seen from dateutil.tz.tz is replaced by a model that hands them out;
(c) load-path equivalence: name / path / stream / ZoneInfoFile archive (with a link entry) / copy / pickle.
"""
import contextlib
import io
import os
import struct
import tarfile
import tempfile

from engine import chx, report, stubs, tsdt
from engine import sym as S
from engine.chx import Cell
from harness import tzf

M = "harness.tzf"
MF = "harness.c06"


# ------------------------------------------------------------------ (b) symbolic file content
class _FakeFile(object):
    """File object whose reads return opaque tokens; the struct.unpack model knows what each token holds."""

    def __init__(self, plan):
        self.plan = list(plan)
        self.pos = 0
        self.name = "<symbolic TZif>"

    def read(self, n=-1):
        tok = self.plan[self.pos]
        self.pos += 1
        return tok

    def seek(self, *a):
        pass

    def __enter__(self):
        return self

    def __exit__(self, *a):
        return False


class _Tok(object):
    def __init__(self, kind, values):
        self.kind = kind
        self.values = values

    def decode(self, *a):
        return self.values


def h_symfile(timecnt, typecnt):
    """All TZif version-1 files with `timecnt` transitions and `typecnt` local time types (abbreviations fixed
    'A','B','C'): transition times (strictly increasing), type indices, gmtoff (+-50400), isdst are symbolic."""
    from dateutil import tz
    import dateutil.tz.tz as T
    types = {}
    for i in range(timecnt):
        types["t%d" % i] = int
        types["x%d" % i] = int
    for j in range(typecnt):
        types["off%d" % j] = int
        types["dst%d" % j] = int
    types["u"] = int
    ABBR = "WXYZ\x00V\x00"          # types 0..2 point at offsets 0,1,2: 'WXYZ', 'XYZ', 'YZ' (suffix sharing, as zic emits)
    abbr_of = lambda j: ABBR[j:ABBR.find("\x00", j)]

    real_unpack = struct.unpack

    def fn(ctx, **kw):
        ts = [kw["t%d" % i] for i in range(timecnt)]
        xs = [kw["x%d" % i] for i in range(timecnt)]
        offs = [kw["off%d" % j] for j in range(typecnt)]
        dsts = [kw["dst%d" % j] for j in range(typecnt)]
        u = kw["u"]
        for i, t in enumerate(ts):
            ctx.assume(S.within(t, -2 * 10 ** 9, 2 * 10 ** 9))
            if i:
                ctx.assume(S.lt(ts[i - 1], t))
        for x in xs:
            ctx.assume(S.within(x, 0, typecnt - 1))
        for o in offs:
            ctx.assume(S.within(o, -50400, 50400))
        for d in dsts:
            ctx.assume(S.within(d, 0, 1))
        xs = [ctx.concrete(x) for x in xs]                # the decoder indexes a Python list with them
        dsts = [ctx.concrete(d) for d in dsts]
        if ctx.symbolic:
            plan = [_Tok("magic", "TZif"), _Tok("pad", None), _Tok("hdr", (0, 0, 0, timecnt, typecnt, len(ABBR)))]
            if timecnt:
                plan += [_Tok("times", tuple(ts)), _Tok("idx", tuple(xs))]
            for j in range(typecnt):
                plan.append(_Tok("tt", (offs[j], dsts[j], j)))
            plan.append(_Tok("abbr", ABBR))

            class _StructShim(object):
                @staticmethod
                def unpack(fmt, tok):
                    return tok.values
            with stubs.rebind("dateutil.tz.tz", struct=_StructShim):
                z = tz.tzfile(_FakeFile(plan))
        else:
            data = b"TZif" + b"\x00" * 16 + struct.pack(">6l", 0, 0, 0, timecnt, typecnt, len(ABBR))
            data += struct.pack(">%dl" % timecnt, *ts) if timecnt else b""
            data += bytes(xs)
            for j in range(typecnt):
                data += struct.pack(">lbb", offs[j], dsts[j], j)
            data += ABBR.encode()
            z = tz.tzfile(io.BytesIO(data))
        # reference: piecewise constant function of the UTC instant
        first = 0
        for j in range(typecnt):
            if not dsts[j]:
                first = j
                break
        lo = ts[0] if timecnt else 0
        hi = ts[-1] if timecnt else 0
        ctx.assume(S.and_(S.le(lo, u), S.le(u, hi)) if timecnt else S.within(u, -10 ** 6, 10 ** 6))
        ti = first
        eoff = offs[first]
        for i in range(timecnt):
            after = S.le(ts[i], u)
            eoff = S.ite(after, offs[xs[i]], eoff)
        # which type applies: pinned by forks (the decoder's bisect does the same)
        k = -1
        for i in range(timecnt):
            if u >= ts[i]:
                k = i
        ety = xs[k] if k >= 0 else first
        dt = tsdt.mk(ctx, u, z)
        wall = z.fromutc(dt)
        w = tsdt.ts_of(wall)
        # shape of the interval, for the finding key -- every ingredient is pinned by the path (k, type indices
        # and isdst flags are concrete; the direction of the offset change is split on here)
        prev = (xs[k - 1] if k >= 1 else first) if k >= 0 else first
        cur = xs[k] if k >= 0 else first
        dirn = ctx.split(S.ite(S.lt(offs[cur], offs[prev]), 0, S.ite(S.lt(offs[prev], offs[cur]), 2, 1)), range(3)) if k >= 0 else 1
        shape = "k%d:%s:dst%d%d%s%s" % (k, ("fold", "same", "gap")[dirn], dsts[prev], dsts[cur],
                                       ":first" if k == 0 else "", ":last" if k == timecnt - 1 else "")
        ctx.check(S.eq(S.sub(w, u), eoff), "wall - UTC is not the offset the data assigns to the interval",
                  key="sym:%dx%d:data-offset:%s" % (timecnt, typecnt, shape))
        ctx.check(wall.tzname() == abbr_of(ety), "abbreviation differs from the data",
                  key="sym:%dx%d:data-abbr:%s" % (timecnt, typecnt, shape))
        ctx.check(S.eq(tsdt.secs(wall.utcoffset()), eoff), "reported utcoffset differs from the data",
                  key="sym:%dx%d:data-utcoffset:%s" % (timecnt, typecnt, shape))
        if not dsts[ety]:
            ctx.check(tsdt.secs(wall.dst()) == 0, "non-zero dst() where the data marks standard time",
                      key="sym:%dx%d:data-dst:%s" % (timecnt, typecnt, shape))
        return (int(k), int(ety))
    return fn, types


# ------------------------------------------------------------------ (c) load paths
def h_loadpaths(name, path):
    import copy
    import pickle
    from dateutil import tz, zoneinfo
    z_path = tz.tzfile(path)
    with open(path, "rb") as f:
        data = f.read()
    z_stream = tz.tzfile(io.BytesIO(data), filename=name)
    z_name = tz.gettz.nocache(name)
    # an archive with the zone and a hard-link entry pointing at it
    buf = io.BytesIO()
    with tarfile.open(fileobj=buf, mode="w:gz") as tf:
        ti = tarfile.TarInfo(name)
        ti.size = len(data)
        tf.addfile(ti, io.BytesIO(data))
        ln = tarfile.TarInfo("Link/" + name.replace("/", "_"))
        ln.type = tarfile.LNKTYPE
        ln.linkname = name
        tf.addfile(ln)
        sy = tarfile.TarInfo("Sym/" + name.replace("/", "_"))      # aliases are stored as symbolic links in some archives
        sy.type = tarfile.SYMTYPE
        sy.linkname = name
        tf.addfile(sy)
    buf.seek(0)
    zif = zoneinfo.ZoneInfoFile(buf)
    z_arch = zif.get(name)
    z_link = zif.get("Link/" + name.replace("/", "_"))
    z_sym = zif.get("Sym/" + name.replace("/", "_"))
    variants = [("path", z_path), ("stream", z_stream), ("gettz", z_name), ("archive", z_arch), ("archive-link", z_link), ("archive-symlink", z_sym),
                ("copy", copy.copy(z_path)), ("deepcopy", copy.deepcopy(z_path))]
    for proto in (0, 2, 5):
        variants.append(("pickle%d" % proto, pickle.loads(pickle.dumps(z_path, proto))))
    # a stream-loaded zone whose label happens to be the path of ANOTHER installed zone: copies and pickles carry the
    # data they were built from, not whatever that path holds
    other = os.path.join(os.path.dirname(os.path.dirname(path)) if "/" in name else os.path.dirname(path), "Asia", "Tokyo")
    if name == "Asia/Tokyo" or not os.path.isfile(other):
        other = path
    z_lab = tz.tzfile(io.BytesIO(data), filename=other)
    variants += [("stream-labelled", z_lab), ("pickle-of-labelled-stream", pickle.loads(pickle.dumps(z_lab, 2))),
                 ("deepcopy-of-labelled-stream", copy.deepcopy(z_lab)), ("copy-of-labelled-stream", copy.copy(z_lab))]
    t = tzf.read_tzif_v1(data)
    lo, hi = tzf.span(t)
    types = dict(u=int)

    def fn(ctx, u):
        ctx.assume(S.within(u, lo, hi))
        ctx.check(z_link is z_arch, "archive link entry is not the target's object", key="%s:link-identity" % name)
        ref = None
        for (vn, z) in variants:
            ctx.check(z is not None, "load path %s gave no zone" % vn, key="%s:load-%s" % (name, vn))
            ctx.check(z == z_path and z_path == z and not (z != z_path), "zone loaded via %s is not equal to the one loaded by path" % vn,
                      key="%s:equal-%s" % (name, vn))
            wall = z.fromutc(tsdt.mk(ctx, u, z))
            ans = (tsdt.ts_of(wall), wall.fold, tsdt.secs(wall.utcoffset()), tsdt.secs(wall.dst()), wall.tzname())
            if ref is None:
                ref = ans
            else:
                ctx.check(S.and_(S.eq(ans[0], ref[0]), S.eq(ans[1], ref[1]), S.eq(ans[2], ref[2]), S.eq(ans[3], ref[3])) and ans[4] == ref[4],
                          "zone loaded via %s answers differently from the one loaded by path" % vn, key="%s:answers-%s" % (name, vn))
        return None
    return fn, types


def cells(tier, seed):
    q = tier == "quick"
    cs = []
    zl = tzf.zone_list(tier, seed)
    for (n, p) in zl:
        cs.append(Cell(M, "h_utc", dict(name=n, path=p, clauses=["c06"]), name="data[%s]" % n,
                       budget_s=150 if q else 600, per_path_s=20, max_violations=600))
    for (n, p) in (zl[:6] if q else zl[::8]):
        if n in ("UTC",) or "/" not in n:
            continue
        cs.append(Cell(MF, "h_loadpaths", dict(name=n, path=p), name="load[%s]" % n, budget_s=200 if q else 900, per_path_s=30))
    for (tc, yc) in (((0, 1), (1, 2), (2, 2)) if q else ((0, 1), (0, 2), (1, 1), (1, 2), (2, 2), (2, 3), (3, 2), (3, 3))):
        cs.append(Cell(MF, "h_symfile", dict(timecnt=tc, typecnt=yc), budget_s=240 if q else 3000, per_path_s=30, max_violations=300))
    return cs


ASSUMPTIONS = [
    "\"the data\" is the version-1 block (32-bit transition times); dateutil ignores the version-2+ block and footer",
    "before the first transition the data's first standard type applies (as the property states); cells check instants from the first to the last transition",
    "symbolic-file cells: struct.unpack as seen from dateutil.tz.tz hands out the solver variables of a file with timecnt <= 3 transitions and typecnt <= 3 types "
    "(counts, type indices and isdst flags pinned per path; transition times and offsets symbolic); the native replay builds the real bytes and parses them with the real struct",
    "datetimes are timestamp-backed stand-ins (engine/tsdt.py), whole seconds",
    "archive cells build a tar.gz with one zone, one hard-link entry and one symbolic-link entry in memory",
    "sub-second instants: one microsecond before / after the transition opening each interval, on real datetimes in the native replay, compared with the whole-second answers",
]
OUTSIDE = ["version-2+ 64-bit data, leap-second records, isstd/isgmt indicators", "files with more than 3 transitions in the symbolic cells (the installed database covers long tables)"]


def run(tier, seed, jobs):
    n, bad = tsdt.validate(seed, 1500)
    errs = [dict(kind="stub-validation", stub="TsDT", sample=repr(b)) for b in bad[:5]]
    cs = report.filter_cells(cells(tier, seed))
    res = chx.run_cells(cs, jobs)
    return report.aggregate("C06", res, assumptions=ASSUMPTIONS, bounds=dict(cells=len(cs)), outside=OUTSIDE,
                            stubs=["TsDT", "struct.unpack model"], extra_errors=errs,
                            stub_validation=dict(TsDT=dict(cases=n, mismatches=len(bad))))
