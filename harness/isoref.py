"""Strict reference grammar for the ISO-8601 forms dateutil's isoparser documents, written fork-free over a
list of byte values (python ints natively, SymbolicInt under the tracer: only & | and arithmetic are used).

layouts_*(bs) return a list of (name, valid, fields) -- `valid` is a (symbolic) bool saying that the
byte list is exactly this layout with every field in range; `fields` is the denotation.
"""

from engine import sym as S

DIG = "D"


def isdig(b):
    return S.within(b, 48, 57)


def num(bs):
    terms = []
    n = len(bs)
    for i, b in enumerate(bs):
        terms.append(S.mulc(S.sub(b, 48), 10 ** (n - 1 - i)))
    return S.add(*terms) if terms else 0


def alldig(bs):
    return S.and_(*[isdig(b) for b in bs]) if bs else True


is_leap = S.is_leap
days_in_month = S.days_in_month
days_before_month = S.days_before_month
days_before_year = S.days_before_year
ordinal = S.ordinal
jan1_weekday = S.jan1_weekday


def iso_week1_monday(y):
    # ordinal of the Monday of ISO week 1: the week with the year's first Thursday.  If 1 January is
    # Mon..Thu (0..3) week 1 contains it, otherwise week 1 starts the following Monday.
    p = jan1_weekday(y)
    return S.add(days_before_year(y), 1, S.mulc(p, -1), S.ite(S.lt(3, p), 7, 0))


def weeks_in_year(y):
    # 53 weeks iff 1 January is a Thursday, or a Wednesday in a leap year
    p = jan1_weekday(y)
    return S.add(52, S.b2i(S.or_(S.eq(p, 3), S.and_(S.eq(p, 2), is_leap(y)))))


MAXORD = 3652059


# ---------------------------------------------------------------------------
# dates: fields = ("ymd", y, m, d) or ("ord", ordinal)

def _lits(lits):
    out = []
    for (b, c) in lits:
        if isinstance(c, tuple):
            out.append(S.or_(*[S.eq(b, x) for x in c]))
        else:
            out.append(S.eq(b, c))
    return out


def date_layouts(bs, strict_weeks=True):
    n = len(bs)
    out = []

    def ymd(name, yb, mb, db, lits):
        y, m, d = num(yb), (num(mb) if mb else 1), (num(db) if db else 1)
        ok = S.and_(alldig(yb + mb + db), *(_lits(lits) + [S.le(1, y), S.within(m, 1, 12), S.le(1, d),
                                                            S.le(d, days_in_month(y, m))]))
        out.append((name, ok, ("ymd", y, m, d)))

    def week(name, yb, wb, db, lits):
        y, w, d = num(yb), num(wb), (num(db) if db else 1)
        o = S.add(iso_week1_monday(y), S.mulc(S.sub(w, 1), 7), S.sub(d, 1))
        ok = S.and_(alldig(yb + wb + db), *(_lits(lits) + [
            S.le(1, y), S.le(1, w), S.within(d, 1, 7),
            S.le(w, weeks_in_year(y)) if strict_weeks else S.le(w, 53), S.within(o, 1, MAXORD)]))
        out.append((name, ok, ("ord", o)))

    def ordl(name, yb, ob, lits):
        y, o = num(yb), num(ob)
        ok = S.and_(alldig(yb + ob), *(_lits(lits) + [S.le(1, y), S.le(1, o), S.le(o, S.add(365, S.b2i(is_leap(y))))]))
        out.append((name, ok, ("ord", S.add(days_before_year(y), o))))

    if n == 4:
        ymd("YYYY", bs[0:4], [], [], [])
    if n == 7:
        ymd("YYYY-MM", bs[0:4], bs[5:7], [], [(bs[4], 45)])
        ordl("YYYYDDD", bs[0:4], bs[4:7], [])
        week("YYYYWww", bs[0:4], bs[5:7], [], [(bs[4], 87)])
    if n == 8:
        ymd("YYYYMMDD", bs[0:4], bs[4:6], bs[6:8], [])
        ordl("YYYY-DDD", bs[0:4], bs[5:8], [(bs[4], 45)])
        week("YYYY-Www", bs[0:4], bs[6:8], [], [(bs[4], 45), (bs[5], 87)])
        week("YYYYWwwD", bs[0:4], bs[5:7], bs[7:8], [(bs[4], 87)])
    if n == 10:
        ymd("YYYY-MM-DD", bs[0:4], bs[5:7], bs[8:10], [(bs[4], 45), (bs[7], 45)])
        week("YYYY-Www-D", bs[0:4], bs[6:8], bs[9:10], [(bs[4], 45), (bs[5], 87), (bs[8], 45)])
    return out


DATE_LENGTHS = (4, 7, 8, 10)
FULL_DATE_NAMES = ("YYYYMMDD", "YYYY-MM-DD", "YYYYDDD", "YYYY-DDD", "YYYYWwwD", "YYYY-Www-D")


# ---------------------------------------------------------------------------
# offsets: fields = ("off", seconds)   (zero offsets denote UTC)

def tz_layouts(bs):
    n = len(bs)
    out = []
    if n == 1:
        out.append(("Z", S.or_(S.eq(bs[0], 90), S.eq(bs[0], 122)), ("off", 0)))
        return out
    if n not in (3, 5, 6):
        return out
    sign_ok = S.or_(S.eq(bs[0], 43), S.eq(bs[0], 45))
    neg = S.eq(bs[0], 45)
    hh = num(bs[1:3])
    if n == 3:
        ok = S.and_(sign_ok, alldig(bs[1:3]), S.le(hh, 23))
        secs = S.mulc(hh, 3600)
        name = "+hh"
    elif n == 5:
        mm = num(bs[3:5])
        ok = S.and_(sign_ok, alldig(bs[1:5]), S.le(hh, 23), S.le(mm, 59))
        secs = S.add(S.mulc(hh, 3600), S.mulc(mm, 60))
        name = "+hhmm"
    else:
        mm = num(bs[4:6])
        ok = S.and_(sign_ok, alldig(bs[1:3] + bs[4:6]), S.eq(bs[3], 58), S.le(hh, 23), S.le(mm, 59))
        secs = S.add(S.mulc(hh, 3600), S.mulc(mm, 60))
        name = "+hh:mm"
    out.append((name, ok, ("off", S.ite(neg, S.mulc(secs, -1), secs))))
    return out


TZ_LENGTHS = (0, 1, 3, 5, 6)


# ---------------------------------------------------------------------------
# times: fields = (h, m, s, us, tz) with tz None | ("off", seconds); h may be 24 (only 24:00:00.0)

def time_core_layouts(bs):
    """Time without offset."""
    n = len(bs)
    out = []

    def add(name, hb, mb, sb, fb, lits):
        h, m, s = num(hb), (num(mb) if mb else 0), (num(sb) if sb else 0)
        f6 = fb[:6]
        us = S.mulc(num(f6), 10 ** (6 - len(f6))) if fb else 0
        rest0 = S.and_(S.eq(m, 0), S.eq(s, 0), S.eq(us, 0))
        ok = S.and_(alldig(hb + mb + sb + fb), *(_lits(lits) + [
            S.or_(S.le(h, 23), S.and_(S.eq(h, 24), rest0)), S.le(m, 59), S.le(s, 59)]))
        out.append((name, ok, (h, m, s, us)))

    if n == 2:
        add("hh", bs[0:2], [], [], [], [])
    if n == 4:
        add("hhmm", bs[0:2], bs[2:4], [], [], [])
    if n == 5:
        add("hh:mm", bs[0:2], bs[3:5], [], [], [(bs[2], 58)])
    if n == 6:
        add("hhmmss", bs[0:2], bs[2:4], bs[4:6], [], [])
    if n == 8:
        add("hh:mm:ss", bs[0:2], bs[3:5], bs[6:8], [], [(bs[2], 58), (bs[5], 58)])
    if n >= 8:      # hhmmss.f+
        add("hhmmss.f", bs[0:2], bs[2:4], bs[4:6], bs[7:], [(bs[6], (46, 44))])
    if n >= 10:     # hh:mm:ss.f+
        add("hh:mm:ss.f", bs[0:2], bs[3:5], bs[6:8], bs[9:], [(bs[2], 58), (bs[5], 58), (bs[8], (46, 44))])
    return out


def time_layouts(bs):
    n = len(bs)
    out = []
    for tl in TZ_LENGTHS:
        if n - tl < 2:
            continue
        cores = time_core_layouts(bs[:n - tl])
        if tl == 0:
            for (nm, ok, f) in cores:
                out.append((nm, ok, f + (None,)))
        else:
            for (tn, tok, tf) in tz_layouts(bs[n - tl:]):
                for (nm, ok, f) in cores:
                    out.append((nm + tn, S.and_(ok, tok), f + (tf,)))
    return out


# ---------------------------------------------------------------------------
# full datetimes: fields = (datefields, (h, m, s, us, tz) | None)

def datetime_layouts(bs, sep=None, allow_digit_sep=True, strict_weeks=True):
    """sep: None (any single byte), or the configured separator byte value."""
    n = len(bs)
    out = []
    for dl in DATE_LENGTHS:
        if dl > n:
            continue
        if dl == n:
            for (nm, ok, f) in date_layouts(bs, strict_weeks):
                out.append((nm, ok, (f, None)))
            continue
        if n - dl - 1 < 2:
            continue
        sb = bs[dl]
        if sep is not None:
            sep_ok = S.eq(sb, sep)
        elif allow_digit_sep:
            sep_ok = True
        else:
            sep_ok = S.not_(isdig(sb))
        dls = [x for x in date_layouts(bs[:dl], strict_weeks) if x[0] in FULL_DATE_NAMES]
        if not dls:
            continue
        tls = time_layouts(bs[dl + 1:])
        for (dn, dok, df) in dls:
            dord = S.ordinal(df[1], df[2], df[3]) if df[0] == "ymd" else df[1]
            for (tn, tok, tf) in tls:
                # 24:00 denotes the next day, which must still be a representable date
                rep = S.le(S.add(dord, S.b2i(S.eq(tf[0], 24))), MAXORD)
                out.append((dn + "_" + tn, S.and_(dok, tok, sep_ok, rep), (df, tf)))
    return out
