"""C15 parse() options: default fill-in, time-zone resolution cascade, fuzzy modes."""
import contextlib
import datetime
import warnings

from engine import chx, numtok, report, stubs
from engine import sym as S
from engine.chx import Cell
from harness import parsekit as K
from harness import c02
from harness.parsekit import F

M = "harness.c15"
FIELDS = ("year", "month", "day", "hour", "minute", "second", "microsecond")


# ------------------------------------------------------------------ (1) _build_naive
def h_build_naive(dyear, present):
    """res: fields in `present` are given (symbolic values), the others absent; default: year = dyear (cell), month /
    day / time symbolic.  Oracle: replacement, month-end clipping iff no day was given, bare weekday moves forward."""
    import dateutil.parser._parser as P
    K.prep()
    types = dict(dm=int, dd=int, dh=int, dmi=int, ds=int, wd=int, wdp=bool)
    for f in present:
        types["v_" + f] = int
    RANGE = dict(year=(dyear - 2, dyear + 2), month=(1, 12), day=(1, 31), hour=(0, 23), minute=(0, 59), second=(0, 59), microsecond=(0, 999999))

    def fn(ctx, dm, dd, dh, dmi, ds, wd, wdp, **kw):
        ctx.assume(S.valid_ymd(dyear, dm, dd))
        ctx.assume(S.within(dh, 0, 23))
        ctx.assume(S.within(dmi, 0, 59))
        ctx.assume(S.within(ds, 0, 59))
        ctx.assume(S.within(wd, 0, 6))
        wdp = ctx.concrete(wdp)
        default = datetime.datetime(dyear, dm, dd, dh, dmi, ds)
        res = P.parser._result()
        vals = {}
        for f in present:
            v = kw["v_" + f]
            ctx.assume(S.within(v, *RANGE[f]))
            if f == "year":
                v = ctx.concrete(v)
            setattr(res, f, v)
            vals[f] = v
        if wdp:
            res.weekday = wd
        y = vals.get("year", dyear)
        m = vals.get("month", dm)
        if "day" in vals:
            d = vals["day"]
            ctx.assume(S.le(d, S.days_in_month(y, m)))        # a given day beyond the month is a ValueError, checked by C14
        else:
            dim = S.days_in_month(y, m)
            d = S.ite(S.lt(dim, dd), dim, dd)
        with K.parser_stubs():
            pass
        try:
            r = P.parser()._build_naive(res, default)
        except ValueError:
            ctx.fail("_build_naive raised ValueError for in-range fields", key="naive-raises")
        eo = S.ordinal(y, m, d)
        if wdp and "day" not in vals:
            now = S.mod(S.add(eo, 6), 7)
            eo = S.add(eo, S.mod(S.add(S.sub(wd, now), 7), 7))
        ctx.check(S.eq(r.toordinal(), eo), "wrong date after default fill-in / clipping / weekday shift",
                  key="naive-date%s" % ("-weekday" if wdp else ""))
        ctx.check(S.and_(S.eq(r.hour, vals.get("hour", dh)), S.eq(r.minute, vals.get("minute", dmi)), S.eq(r.second, vals.get("second", ds)),
                         S.eq(r.microsecond, vals.get("microsecond", 0))), "time fields not taken from text / default", key="naive-time")
        return None

    @contextlib.contextmanager
    def st():
        with stubs.rebind("dateutil.parser._parser", monthrange=K._Monthrange()):
            import dateutil.relativedelta  # noqa
            from harness.c09 import _CalShim
            with stubs.rebind("dateutil.relativedelta", calendar=_CalShim):
                yield
    return fn, types, st


# ------------------------------------------------------------------ (2) zone resolution cascade
NAMES = [None, "UTC", "Z", "GMT", "LCL", "LCD", "BRST", "XYZ"]


def h_tzaware(tzinfos_form, ignoretz=False):
    """res.tzname from a vocabulary (pinned per path), res.tzoffset symbolic or absent; tzinfos in several forms;
    the process's local names are ('LCL','LCD').  Oracle: the documented precedence."""
    import dateutil.parser._parser as P
    from dateutil import tz
    K.prep()
    types = dict(ni=int, off=int, offp=bool)
    brst = tz.tzoffset("BRST", -7200)

    def fn(ctx, ni, off, offp):
        ctx.assume(S.within(ni, 0, len(NAMES) - 1))
        ctx.assume(S.within(off, -86399, 86399))
        name = NAMES[ctx.concrete(ni)]
        offp = ctx.concrete(offp)
        if tzinfos_form == "none":
            tzinfos = None
        elif tzinfos_form == "tzinfo":
            tzinfos = {"BRST": brst}
        elif tzinfos_form == "int":
            tzinfos = {"BRST": -7200}
        elif tzinfos_form == "str":
            tzinfos = {"BRST": "BRST2"}
        else:
            tzinfos = lambda nm, o: brst if nm == "BRST" else None
        res = P.parser._result()
        res.tzname = name
        res.tzoffset = off if offp else None
        # what validate() does first
        info = P.parserinfo()
        info.validate(res)
        naive = datetime.datetime(2003, 9, 25, 10, 49, 41)
        env = contextlib.nullcontext() if ctx.symbolic else K.native_env()
        with env, warnings.catch_warnings(record=True) as wlist:
            warnings.simplefilter("always")
            if ignoretz:
                aware = naive
            else:
                aware = P.parser()._build_tzaware(naive, res, tzinfos)
        n2, o2 = res.tzname, res.tzoffset
        in_tzinfos = (tzinfos_form in ("tzinfo", "int", "str") and n2 == "BRST") or tzinfos_form == "callable"
        key = "tz-cascade:%s:%s" % (tzinfos_form, name)
        ctx.check(S.and_(aware.hour == 10, aware.minute == 49, aware.second == 41), "wall time altered by zone attachment", key=key + ":wall")
        if ignoretz:
            ctx.check(aware.tzinfo is None, "ignoretz returned an aware datetime", key=key)
            return None
        if in_tzinfos:
            if n2 == "BRST":
                ctx.check(aware.tzinfo is not None and aware.utcoffset() == datetime.timedelta(seconds=-7200), "tzinfos entry not used", key=key)
            else:
                ctx.check(aware.tzinfo is None, "callable tzinfos returning None must give a naive result", key=key)
        elif n2 in ("LCL", "LCD"):
            ctx.check(type(aware.tzinfo) is tz.tzlocal, "local zone name not resolved to tzlocal", key=key)
        elif o2 is not None and S.eq(o2, 0):
            ctx.check(aware.tzinfo is tz.UTC, "UTC designator / zero offset not resolved to tz.UTC", key=key)
        elif o2 is not None:
            ctx.check(type(aware.tzinfo) is tz.tzoffset and S.eq(aware.tzinfo._offset.days * 86400 + aware.tzinfo._offset.seconds, o2),
                      "numeric offset not resolved to a fixed-offset zone of that many seconds", key=key)
        elif n2:
            ctx.check(aware.tzinfo is None and any(issubclass(w.category, P.UnknownTimezoneWarning) for w in wlist),
                      "unknown abbreviation must give a naive result with a warning", key=key)
        else:
            ctx.check(aware.tzinfo is None, "no zone text must give a naive result", key=key)
        return None

    def st():
        return K.parser_stubs()
    return fn, types, st


# ------------------------------------------------------------------ (3)+(4) text level: GMT+h sign, fuzzy agreement
FILLERS = {
    "prefix": (["Today is "], []),
    "suffix": ([], [" or so"]),
    "both": (["It happened on "], [" exactly"]),
    # a filler word the parser's vocabulary also knows (the a.m. marker "a") after a time whose AM/PM flag is already consumed
    "article": (["Today is "], [", a fine day"]),
}


def h_fuzzy(name, filler):
    import dateutil.parser._parser as P
    K.prep()
    template, opts = c02.TEMPLATES[name]
    pre, post = FILLERS[filler]
    pieces0, fields, names = K.build(template)
    pieces1, _f, _n = K.build(pre + list(template) + post)
    types = {nm: int for nm in names}
    pk = {o: opts[o] for o in ("dayfirst", "yearfirst") if o in opts}
    words = [w for w in "".join(pre + post).split()]

    def fn(ctx, **kw):
        for nm in names:
            ctx.assume(S.within(kw[nm], 0, 9))
        default = datetime.datetime(2001, 2, 3)
        mk = (lambda pcs: numtok.SymText(pcs, kw)) if ctx.symbolic else (lambda pcs: numtok.SymText(pcs, kw).render())

        def call(pcs, **o):
            env = contextlib.nullcontext() if ctx.symbolic else K.native_env()
            try:
                with env:
                    return ("ok", P.parser().parse(mk(pcs), default=default, **dict(pk, **o)))
            except (P.ParserError, OverflowError):
                return ("rejected", None)
        plain = call(pieces0)
        if plain[0] != "ok":
            return "bare text rejected"
        same = lambda a, b: S.and_(S.eq(a.year, b.year), S.eq(a.month, b.month), S.eq(a.day, b.day), S.eq(a.hour, b.hour),
                                   S.eq(a.minute, b.minute), S.eq(a.second, b.second), S.eq(a.microsecond, b.microsecond),
                                   (a.tzinfo is None) == (b.tzinfo is None))
        fz_bare = call(pieces0, fuzzy=True)
        ctx.check(fz_bare[0] == "ok" and same(fz_bare[1], plain[1]), "text accepted without fuzzy gives a different result with fuzzy=True",
                  key="fuzzy-superset:" + name.split("-")[0])
        fz = call(pieces1, fuzzy=True)
        ctx.check(fz[0] == "ok" and same(fz[1], plain[1]), "fuzzy parse of a sentence containing the date does not return that date",
                  key="fuzzy-sentence:%s:%s" % (name.split("-")[0], filler))
        ft = call(pieces1, fuzzy_with_tokens=True)
        ctx.check(ft[0] == "ok" and isinstance(ft[1], tuple) and same(ft[1][0], plain[1]), "fuzzy_with_tokens returns a different datetime",
                  key="fuzzy-tokens-dt:%s:%s" % (name.split("-")[0], filler))
        toks = ft[1][1]
        joined = "".join(t for t in toks if isinstance(t, str))
        pos = 0
        ok = all(isinstance(t, str) for t in toks)
        for w in words:
            j = joined.find(w, pos)
            if j < 0:
                ok = False
                break
            pos = j + len(w)
        if filler == "article":     # the filler after the date must come back whole
            ok = ok and all(pc.strip(", ") in joined for pc in post)
        ctx.check(ok, "fuzzy_with_tokens does not return the skipped text in order", key="fuzzy-tokens-text:%s:%s" % (name.split("-")[0], filler))
        return "ok"

    def st():
        return K.parser_stubs()
    return fn, types, st


def h_gmt_sign(zone, sign, minutes=False):
    """'10:00 GMT+h' means h hours BEHIND UTC (my time + h is GMT); names that are not UTC aliases keep the sign rule too."""
    import dateutil.parser._parser as P
    from dateutil import tz
    K.prep()
    pieces, fields, names = K.build(["2003-09-25 10:49:41 ", zone, sign, F("oh", 2)] + ([":", F("om", 2)] if minutes else []))
    types = {nm: int for nm in names}

    def fn(ctx, **kw):
        for nm in names:
            ctx.assume(S.within(kw[nm], 0, 9))
        oh = K.num(kw, fields["oh"])
        ctx.assume(S.within(oh, 0, 23))
        om = K.num(kw, fields["om"]) if minutes else 0
        ctx.assume(S.within(om, 0, 59))
        text = numtok.SymText(pieces, kw) if ctx.symbolic else numtok.SymText(pieces, kw).render()
        tzinfos = {"BRST": -7200} if zone == "BRST" else None
        env = contextlib.nullcontext() if ctx.symbolic else K.native_env()
        try:
            with env:
                r = P.parser().parse(text, default=datetime.datetime(2001, 2, 3), tzinfos=tzinfos)
        except P.ParserError:
            ctx.fail("'%s%sh' rejected" % (zone, sign), key="gmt-sign-reject:%s%s" % (zone, sign))
        exp = S.mulc(S.add(S.mulc(oh, 3600), S.mulc(om, 60)), -1 if sign == "+" else 1)
        o = r.utcoffset()
        if zone == "BRST":
            ctx.check(o is not None and o == datetime.timedelta(seconds=-7200), "tzinfos name with a trailing offset: tzinfos must win", key="gmt-sign:BRST")
        else:
            ctx.check(o is not None and S.eq(o.days * 86400 + o.seconds, exp), "'%s%sh' must mean h hours %s UTC" % (zone, sign, "behind" if sign == "+" else "ahead of"),
                      key="gmt-sign:%s%s" % (zone, sign))
        return None

    def st():
        return K.parser_stubs()
    return fn, types, st


# ------------------------------------------------------------------ (2b) text level: abbreviations of every admissible length
ABBRS = ["ET", "EST", "BRST", "AEDST", "ChST", "Est", "ABCDEF", "E5T", "UTC", "GMT"]
TEXTS = ["2003-09-25 10:49:41 %s", "Thu Sep 25 10:49:41 %s 2003", "10:49:41 %s 25 Sep 2003", "2003-09-25T10:49:41 -0300 (%s)"]


def h_tzname_text(form):
    """parse() of a full text carrying an abbreviation: upper-case ASCII names of up to five letters are zone names and are
    resolved through tzinfos (mapping to tzinfo / int / TZ string, or callable); with none given the result is naive with a
    warning; ignoretz gives the wall time; fuzzy gives the same result.  Everything is pinned per path; the check runs natively."""
    import dateutil.parser as DP
    from dateutil import tz
    types = dict(a=int, t=int, fuzzy=bool)
    wall = datetime.datetime(2003, 9, 25, 10, 49, 41)

    def fn(ctx, a, t, fuzzy):
        ctx.assume(S.within(a, 0, len(ABBRS) - 1))
        ctx.assume(S.within(t, 0, len(TEXTS) - 1))
        a, t, fuzzy = ctx.concrete(a), ctx.concrete(t), ctx.concrete(fuzzy)
        name = ABBRS[a]
        text = TEXTS[t] % name
        paren = "(%s)" in TEXTS[t]
        if paren and (name in ("UTC", "GMT") or not (3 <= len(name) <= 5)):
            ctx.assume(False)        # '(XXX)' after a numeric offset is documented for 3..5 letter names; UTC aliases there are outside
        if ctx.symbolic:
            return None
        is_name = name.isalpha() and name.isupper() and len(name) <= 5 and all(ord(ch) < 128 for ch in name)
        utc = name in ("UTC", "GMT")
        secs = 3600 * (len(name) + 1)
        zone = tz.tzoffset(name, secs)
        if form == "none":
            tzinfos = None
        elif form == "tzinfo":
            tzinfos = {name: zone}
        elif form == "int":
            tzinfos = {name: secs}
        elif form == "str":
            tzinfos = {name: "%s-%d" % ("XXX", len(name) + 1)}       # POSIX: XXX-4 is four hours east
        elif form == "callable":
            tzinfos = lambda nm, off: zone if nm == name else None
        elif form == "int0":          # an integer offset of zero is an offset like any other
            tzinfos = {name: 0}
            secs = 0
        elif form == "callable0":
            tzinfos = lambda nm, off: 0 if nm == name else None
            secs = 0
        else:
            tzinfos = {name: zone}
        key = "tzname-text:%s:%s:%d%s" % (form, name, t, ":fuzzy" if fuzzy else "")
        with ctx.untraced(), K.native_env(), warnings.catch_warnings(record=True) as wlist:
            warnings.simplefilter("always")
            try:
                got = DP.parse(text, tzinfos=tzinfos, ignoretz=(form == "ignoretz"), fuzzy=fuzzy)
            except DP.ParserError:
                got = None
            except Exception as e:
                ctx.fail("parse(%r) raised %s" % (text, type(e).__name__), key=key + ":exc")
            if not is_name:
                # not a zone name: the text is rejected (or, fuzzy, the token is skipped); never resolved through tzinfos
                if got is not None and not paren and secs:
                    ctx.check(got.tzinfo is None or got.utcoffset() != datetime.timedelta(seconds=secs) or name == "E5T",
                              "parse(%r): %r is not an admissible zone abbreviation but was resolved through tzinfos" % (text, name), key=key + ":notname")
                return None
            if got is None:
                ctx.fail("parse(%r) rejected although %r is an admissible zone abbreviation" % (text, name), key=key + ":rejected")
            ctx.check(got.replace(tzinfo=None) == wall, "parse(%r): wall time %r" % (text, got), key=key + ":wall")
            if form == "ignoretz":
                ctx.check(got.tzinfo is None, "ignoretz returned an aware datetime for %r" % (text,), key=key)
            elif form == "none" and not utc and not paren:
                ctx.check(got.tzinfo is None and any(issubclass(w.category, DP.UnknownTimezoneWarning) for w in wlist),
                          "parse(%r): unknown abbreviation must give a naive result with a warning, got %r" % (text, got), key=key)
            elif form == "none" and utc and not paren:
                ctx.check(got.tzinfo is tz.UTC, "parse(%r): UTC designator not resolved to tz.UTC" % (text,), key=key)
            elif form == "none" and paren:
                ctx.check(got.utcoffset() == datetime.timedelta(hours=-3), "parse(%r): numeric offset not used" % (text,), key=key)
            else:
                ctx.check(got.tzinfo is not None and got.utcoffset() == datetime.timedelta(seconds=secs),
                          "parse(%r, tzinfos=%s): expected offset %ds, got %r" % (text, form, secs, got.utcoffset() if got.tzinfo else None), key=key)
                if form in ("tzinfo", "callable"):
                    ctx.check(got.tzinfo is zone, "the tzinfo object supplied through tzinfos is not the one attached", key=key + ":identity")
        return None
    return fn, types


def cells(tier):
    q = tier == "quick"
    cs = []
    for form in ("none", "tzinfo", "int", "str", "callable", "ignoretz", "int0", "callable0"):
        cs.append(Cell(M, "h_tzname_text", dict(form=form), budget_s=120))
    pres = [(), ("month",), ("day",), ("month", "day"), ("year",), ("year", "month"), ("hour", "minute"), ("year", "month", "day", "hour", "minute", "second", "microsecond")]
    for dy in ((2024,) if q else (2024, 2023, 1900, 2000)):
        for pr in (pres if not q else pres[:5] + pres[6:]):
            cs.append(Cell(M, "h_build_naive", dict(dyear=dy, present=list(pr)), budget_s=200 if q else 1200, per_path_s=30))
    for form in ("none", "tzinfo", "int", "str", "callable"):
        cs.append(Cell(M, "h_tzaware", dict(tzinfos_form=form), budget_s=200 if q else 900, per_path_s=30, max_violations=60))
    cs.append(Cell(M, "h_tzaware", dict(tzinfos_form="tzinfo", ignoretz=True), budget_s=120))
    for zone in ("GMT", "UTC", "BRST"):
        for sign in ("+", "-"):
            cs.append(Cell(M, "h_gmt_sign", dict(zone=zone, sign=sign), budget_s=120, per_path_s=30))
    # numeric offsets as fixed-offset zones, text level (C02's offset templates) and GMT+hh:mm
    for n in ("off-colon", "off-neg4", "off-hh", "off-utc-suffix"):
        cs.append(Cell("harness.c02", "h_template", dict(name=n), name="offset-text[%s]" % n, budget_s=200, per_path_s=30, max_violations=20))
    for zone in ("GMT", "UTC"):
        for sign in ("+", "-"):
            cs.append(Cell(M, "h_gmt_sign", dict(zone=zone, sign=sign, minutes=True), budget_s=120, per_path_s=30))
    tnames = ["iso-T", "us-slash-time", "month-name-February", "ampm", "compact8T6"] if q else \
        [n for n in c02.TEMPLATES if n.split("-")[-1] not in c02.MONTHS[1:] and not n.startswith("off-")]
    for n in tnames:
        for f in (("both",) if q else ("prefix", "suffix", "both")):
            cs.append(Cell(M, "h_fuzzy", dict(name=n, filler=f), name="fuzzy[%s|%s]" % (n, f), budget_s=200 if q else 1200, per_path_s=30, max_violations=20))
    cs.append(Cell(M, "h_fuzzy", dict(name="ampm", filler="article"), name="fuzzy[ampm|article]", budget_s=200 if q else 1200, per_path_s=30, max_violations=20))
    return cs


ASSUMPTIONS = c02.ASSUMPTIONS[:3] + [
    "_build_naive / _build_tzaware are driven on directly constructed parser results (the record the scanner fills): which fields are present is a cell parameter, their values and the default's month/day/time are solver variables; the default's year is a cell parameter",
    "zone cascade: the abbreviation comes from a vocabulary (pinned per path): None, UTC aliases, the local names ('LCL','LCD' via the time shim), a tzinfos key, an unknown name; the numeric offset is a solver variable or absent; tzinfos as mapping to tzinfo / int / TZ string, or callable",
    "abbreviation-text cells: four fixed texts x a vocabulary of names of length 1..6 (upper-case, mixed-case, with a digit, UTC aliases) x tzinfos form x fuzzy, pinned per path and run natively through parse()",
    "fuzzy cells: C02 templates embedded in fixed filler sentences; digits symbolic",
]
OUTSIDE = ["arbitrary filler text", "parserinfo subclasses", "tzlocal behaviour itself (C08)"]


def run(tier, seed, jobs):
    cs = report.filter_cells(cells(tier))
    res = chx.run_cells(cs, jobs)
    return report.aggregate("C15", res, assumptions=ASSUMPTIONS, bounds=dict(cells=len(cs)), outside=OUTSIDE,
                            stubs=["split_stub", "NumTok", "Decimal/int/float models", "monthrange", "tz shim", "time shim"])
