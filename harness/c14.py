"""C14 parse() is total: a datetime, ParserError or OverflowError -- nothing else escapes, and a call leaves no state."""
import datetime

from engine import chx, numtok, report
from engine import sym as S
from engine.chx import Cell
from harness import parsekit as K
from harness import c02
from harness.parsekit import F

M = "harness.c14"
N = lambda n: F("n", n)

STRESS = {}


def T(name, template):
    STRESS[name] = template


for ln in (1, 2, 3, 4, 5, 6, 7, 8, 9, 10, 12, 14, 15, 29, 30, 40):
    T("bare-%d" % ln, [N(ln)])
for ln in (1, 2, 3, 4, 28, 29, 30, 40):
    T("minute-%d" % ln, ["10:", N(ln)])
    T("second-%d" % ln, ["10:30:", N(ln)])
    T("hour-%d" % ln, [N(ln), ":30"])
    T("frac-%d" % ln, ["10:30:15.", N(ln)])
    T("minfrac-%d" % ln, ["10:", N(ln), ".", N(2)])
    T("h-label-%d" % ln, [N(ln), "h"])
    T("m-label-%d" % ln, ["10h", N(ln), "m"])
    T("s-label-%d" % ln, ["10h30m", N(ln), "s"])
    T("hfrac-label-%d" % ln, [N(ln), ".", N(2), "h"])
    T("ampm-%d" % ln, [N(ln), " pm"])
    T("ampm-glued-%d" % ln, [N(ln), "am"])
    T("offset-%d" % ln, ["2003-09-25 10:49 +", N(ln)])
    T("offset-colon-%d" % ln, ["2003-09-25 10:49 -", N(ln), ":", N(2)])
    T("month-day-%d" % ln, ["Jan ", N(ln)])
    T("day-month-year-%d" % ln, [N(2), " Jan ", N(ln)])
for sep in ("/", "-", ".", " ", ","):
    for lens in ((1, 1, 2), (2, 2, 2), (2, 2, 4), (4, 2, 2), (3, 3, 3), (2, 2), (4, 2), (1, 4), (29, 2, 2)):
        T("ymd%s%s" % (sep, "x".join(map(str, lens))), sum([[N(l), sep] for l in lens], [])[:-1])
T("T-sep", [N(8), "T", N(6)])
T("T-sep-short", [N(8), "T", N(2)])
T("T-sep-odd", [N(8), "T", N(3)])
T("T-sep-frac", [N(8), "T", N(6), ".", N(3)])
T("four-numbers", [N(2), " ", N(2), " ", N(2), " ", N(2)])
T("five-numbers", [N(2), " ", N(2), " ", N(2), " ", N(2), " ", N(2)])
T("four-single", [N(1), " ", N(1), " ", N(1), " ", N(1)])
T("four-slash", [N(2), "/", N(2), "/", N(2), "/", N(2)])
T("month-and-three", ["Jan ", N(2), " ", N(2), " ", N(3)])
T("time-then-date", [N(2), ":", N(2), " ", N(2), "/", N(2), "/", N(4)])
T("ampm-after-minutes", ["10:", N(2), " pm"])
T("two-ampm", [N(2), " am pm"])
T("utc-offset", ["10:00 UTC+", N(2)])
T("gmt-minus", ["2003-09-25 10:49:41 GMT-", N(1)])
T("tzname-offset4", ["10:49 BRST-", N(4)])
T("paren-tz", ["2003-09-25 10:49 -", N(4), " (BRST)"])


def h_total(name, options):
    import dateutil.parser._parser as P
    K.prep()
    if name in STRESS:
        template = STRESS[name]
    else:
        template = c02.TEMPLATES[name][0]
    pieces, fields, names = K.build(template)
    types = {nm: int for nm in names}
    pk = dict(options)

    def fn(ctx, **kw):
        for nm in names:
            ctx.assume(S.within(kw[nm], 0, 9))
        default = datetime.datetime(2003, 9, 25)
        text = numtok.SymText(pieces, kw) if ctx.symbolic else numtok.SymText(pieces, kw).render()

        def call():
            import contextlib
            env = contextlib.nullcontext() if ctx.symbolic else K.native_env()
            try:
                with env:
                    r = P.parser().parse(text, default=default, **pk)
                if pk.get("fuzzy_with_tokens"):
                    ctx.check(isinstance(r, tuple) and len(r) == 2 and isinstance(r[0], datetime.datetime) and isinstance(r[1], tuple),
                              "fuzzy_with_tokens did not return (datetime, tuple)", key="shape:" + name.split("-")[0])
                    r = r[0]
                ctx.check(isinstance(r, datetime.datetime), "parse returned a %s" % type(r).__name__, key="shape:" + name.split("-")[0])
                return ("ok", r)
            except (P.ParserError, OverflowError):
                return ("rejected", None)
            except chx.Violation:
                raise
            except Exception as e:
                if ctx.symbolic:
                    ctx.fail("%s escapes from parse()" % type(e).__name__)
                ctx.fail("%s escapes from parse(): %r" % (type(e).__name__, str(e)[:80]),
                         key="escapes-%s:%s" % (type(e).__name__, name.rsplit("-", 1)[0] if name[-1].isdigit() else name),
                         text=text if isinstance(text, str) else None)
        a = call()
        b = call()
        ctx.check(a[0] == b[0], "the same call gives a different outcome the second time (state left behind)", key="state:" + name)
        if a[0] == "ok":
            ra, rb = a[1], b[1]
            same = S.and_(S.eq(ra.year, rb.year), S.eq(ra.month, rb.month), S.eq(ra.day, rb.day), S.eq(ra.hour, rb.hour),
                          S.eq(ra.minute, rb.minute), S.eq(ra.second, rb.second), S.eq(ra.microsecond, rb.microsecond))
            ctx.check(same, "the same call gives a different datetime the second time", key="state-value:" + name)
            def _off(x):
                try:
                    return x.utcoffset()
                except ValueError:        # an offset of 24 h or more: the object exists but cannot report it
                    return None
            oa, ob = _off(ra), _off(rb)
            ctx.check((oa is None) == (ob is None) and (oa is None or S.eq(oa.days * 86400 + oa.seconds, ob.days * 86400 + ob.seconds)),
                      "the same call gives a different UTC offset the second time (state left behind)", key="state-offset:" + name)
        return a[0]

    def st():
        return K.parser_stubs()
    return fn, types, st


def h_nontext():
    """Non-text input raises TypeError (type is the symbolic choice)."""
    import dateutil.parser._parser as P
    import io
    types = dict(i=int)
    cands = [None, 12, 12.5, (2003, 9, 25), [b"2003"], {"a": 1}, object(), datetime.datetime(2003, 9, 25)]

    def fn(ctx, i):
        ctx.assume(S.within(i, 0, len(cands) - 1))
        v = cands[ctx.concrete(i)]
        if ctx.symbolic:
            return None          # all inputs are pinned: the check itself runs in the native replay of this path's witness
        with ctx.untraced():
            try:
                P.parse(v)
            except TypeError:
                return None
            except Exception as e:
                ctx.fail("non-text input %r raised %s instead of TypeError" % (type(v).__name__, type(e).__name__), key="nontext-%s-%s" % (type(v).__name__, type(e).__name__))
            ctx.fail("non-text input %r accepted" % (type(v).__name__,), key="nontext-%s-accepted" % type(v).__name__)
    return fn, types


POSITIONS = ["%s", "10:%s", "10:30:%s", "%s:30", "10:30:15.%s", "Jan %s", "%s Jan 2003", "2003-09-%s", "10h%sm", "%s pm", "2003-09-25 10:49 +%s", "%s/%s/%s"]
TAILS = ["", "\u00b2", ",1.1", ".1.1", "a", "\u0663", ".", ",", "\u00bd", ":", "e5", "_1"]
LENGTHS = [26, 40, 200]


def h_prompt(form):
    """Prompt termination on adversarial concrete shapes: a long digit run with an odd tail in every field position,
    as str / bytes / stream.  Position, tail and length are pinned per path; the native run is bounded by 10 s of CPU
    time (ITIMER_VIRTUAL) - the clean parser needs milliseconds - and must end in a datetime, ParserError or OverflowError."""
    import dateutil.parser._parser as P
    import io
    import signal
    types = dict(pi=int, ti=int, li=int, fuzzy=bool)

    class _TooSlow(BaseException):
        pass

    def fn(ctx, pi, ti, li, fuzzy):
        ctx.assume(S.within(pi, 0, len(POSITIONS) - 1))
        ctx.assume(S.within(ti, 0, len(TAILS) - 1))
        ctx.assume(S.within(li, 0, len(LENGTHS) - 1))
        pi, ti, li, fuzzy = ctx.concrete(pi), ctx.concrete(ti), ctx.concrete(li), ctx.concrete(fuzzy)
        if ctx.symbolic:
            return None
        tok = "1" * LENGTHS[li] + TAILS[ti]
        text = POSITIONS[pi].replace("%s", tok)
        if form == "bytes":
            arg = text.encode("utf-8")
        elif form == "stream":
            arg = io.StringIO(text)
        else:
            arg = text
        key = "prompt:%s:%d:%d" % (form, pi, ti)

        def onalarm(signum, frame):
            raise _TooSlow()
        with ctx.untraced():
            old = signal.signal(signal.SIGVTALRM, onalarm)
            signal.setitimer(signal.ITIMER_VIRTUAL, 10.0)
            try:
                try:
                    r = P.parse(arg, fuzzy=fuzzy)
                    ok = isinstance(r, datetime.datetime)
                finally:
                    signal.setitimer(signal.ITIMER_VIRTUAL, 0)
                    signal.signal(signal.SIGVTALRM, old)
                ctx.check(ok, "parse returned a %s" % type(r).__name__, key=key + ":shape")
            except (P.ParserError, OverflowError):
                pass
            except _TooSlow:
                ctx.fail("parse(%r...) [%d chars, %s] did not finish within 10 s of CPU time" % (text[:24], len(text), form), key=key + ":slow")
            except chx.Violation:
                raise
            except Exception as e:
                ctx.fail("%s escapes from parse(%r...): %s" % (type(e).__name__, text[:24], str(e)[:60]), key=key + ":escapes-" + type(e).__name__)
        return None
    return fn, types


OPTS = [dict(), dict(fuzzy=True), dict(fuzzy_with_tokens=True), dict(dayfirst=True), dict(yearfirst=True), dict(ignoretz=True),
        dict(dayfirst=True, yearfirst=True)]


def cells(tier):
    q = tier == "quick"
    cs = [Cell(M, "h_nontext", {}, budget_s=60)]
    for form in ("str", "bytes", "stream"):
        cs.append(Cell(M, "h_prompt", dict(form=form), budget_s=200 if q else 900, per_path_s=60))
    # the documented result shapes with nothing to skip
    for n in ("iso-date", "compact8", "hms-labels", "iso-T", "us-slash"):
        cs.append(Cell(M, "h_total", dict(name=n, options=dict(fuzzy_with_tokens=True)), name="total[%s|fuzzy_with_tokens]" % n, budget_s=120, per_path_s=30,
                       max_violations=20))
    names = list(STRESS)
    c02names = [n for n in c02.TEMPLATES if n.split("-")[-1] not in c02.MONTHS[1:]]
    for n in names + c02names:
        opts = OPTS[:1] if q else OPTS
        if q and (n.startswith("ymd") or n in ("bare-6", "bare-8", "four-numbers", "minute-30", "offset-4")):
            opts = OPTS[:2] + OPTS[3:4]
        for o in opts:
            tag = ",".join(sorted(o)) or "default"
            cs.append(Cell(M, "h_total", dict(name=n, options=o), name="total[%s|%s]" % (n, tag), budget_s=120 if q else 600, per_path_s=30,
                           max_violations=20))
    return cs


ASSUMPTIONS = c02.ASSUMPTIONS[:3] + [
    "every digit of every numeric field is an UNCONSTRAINED solver variable 0..9 (month 13, day 32, hour 25, minute 61, year 0, 30-digit fields are just solver cases); "
    "field positions, lengths (1..40 digits) and separators are template (cell) parameters",
    "prompt-termination cells: 12 field positions x 12 tails x 3 lengths x fuzzy x str/bytes/stream, pinned per path, run natively under a 10 s CPU-time alarm",
    "determinism / statelessness is checked by calling parse twice with the same symbolic text inside one path",
    "OverflowError and ParserError are both 'rejected' (CrossHair's datetime model reports an out-of-range year as ValueError where CPython raises OverflowError for huge ints)",
]
OUTSIDE = ["arbitrary Unicode text, NUL handling, inf/nan words, letters inside numbers (beyond the listed adversarial tails)", "tzinfos option",
           "byte and stream inputs in the symbolic cells (the prompt-termination cells run str / bytes / stream natively)"]


def run(tier, seed, jobs):
    n, bad = K.validate_split_stub(list(STRESS.values()) + [t for (t, _o) in c02.TEMPLATES.values()], seed)
    errs = [dict(kind="stub-validation", stub="split_stub", sample=repr(b)) for b in bad[:5]]
    cs = report.filter_cells(cells(tier))
    res = chx.run_cells(cs, jobs)
    return report.aggregate("C14", res, assumptions=ASSUMPTIONS, bounds=dict(templates=len(cs)), outside=OUTSIDE,
                            stubs=["split_stub", "NumTok", "Decimal/int/float models", "monthrange", "tz shim"], extra_errors=errs,
                            stub_validation=dict(split_stub=dict(cases=n, mismatches=len(bad))))
