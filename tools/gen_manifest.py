#!/usr/bin/env python3
"""Regenerate MANIFEST.json from the table below (kept in one place so it stays valid)."""
import json, os
HERE = os.path.dirname(os.path.dirname(os.path.abspath(__file__)))

TS = ("Trusted: datetimes handed to zones are timestamp-backed stand-ins (engine/tsdt.py, a datetime subclass; validated against real "
      "datetime each run); whole seconds; each path witness replayed natively on real datetimes.")
PT = ("Trusted: the text is a template (concrete structure, symbolic digits); _timelex.split is stubbed by running the real lexer on a representative "
      "rendering (validated each run: token shapes do not depend on digit values); numeric tokens are NumTok objects and Decimal/int/float/monthrange/tz/time "
      "as seen from dateutil.parser._parser are rebound to models (exact decimal incl. the 28-digit precision rule); each path's witness is re-parsed natively from the real string.")
E1 = "CrossHair-core symbolic execution of the real dateutil functions, z3 deciding every path; path tree exhausted per cell"
CHECKS = {
 # id: (technique, level category, level text, level_note, design_ref, engine)
 "C16": ("symbolic execution (CrossHair core + z3) of relativedelta constructor/operators/__eq__/__hash__ with symbolic int fields; path-exhaustive per cell",
         "model_checking",
         "Bounded symbolic model checking: every path of relativedelta.__init__/_fix/__add__/__sub__/__neg__/__abs__/__mul__/__eq__/__hash__/__bool__ "
         "is explored with |field| <= 10**12 symbolic integers; z3 proves totals/ranges/algebraic laws on each path; cells whose tree is not exhausted are reported inconclusive.",
         "Trusted: CrossHair's int/tuple models (cross-checked by native replay of one witness per path), the float(k)->exact-integer stub for d*k "
         "(exact for products < 2**53); float fields and normalized() rounding are outside.", "§5 C16", "chx"),
 "C19": ("AST->SMT (QF_BV, floor-division exact, no-overflow side obligations) translation of easter() re-read from /repo each run; unsat of each negated obligation over the whole documented year range, z3 5.1 + z3 4.8.12 (+cvc5 and a 64-bit re-encoding in thorough)",
         "proof",
         "Solver-discharged obligations over the complete documented domain (1583..4099 western/orthodox, 326..9999 Julian, every method value): equality with Meeus/Jones/Butcher resp. Meeus' Julian algorithm, "
         "Julian->Gregorian shift, Sunday, 22 Mar..25 Apr window, ValueError for bad methods, valid date() arguments. The bound is the property's own domain, so within it the claim is exhaustive.",
         "Trusted: z3/cvc5, the ~300-line AST translator (validated every run against the real function on the repo's test vectors and seeded years; rejects unknown AST nodes), the reference algorithms in harness/c19_oracle.py.", "§5 C19", "astbv"),
 "C20": ("symbolic execution (CrossHair core + z3) of the real isoparser on ALL byte strings of a given length (every byte an unconstrained solver variable) against a strict reference grammar written as one fork-free formula; path-exhaustive per length",
         "model_checking",
         "Bounded symbolic model checking: for each entry point (parse_isodate, parse_isotime, parse_tzstr, isoparse with sep None/'T'/' ') and each input length in the cell list, every path of the real parser over "
         "arbitrary bytes is explored; on accepting paths z3 proves the bytes match a strict ISO-8601 layout and the value is its denotation; any exception other than ValueError is a violation.",
         "Trusted: CrossHair's bytes/datetime models with the stubs of engine/stubs.py (int(bytes) DFA validated each run; fork-free isdigit/contains; forward-map calendar decomposition; lemma year_step proved each run), "
         "each path's witness replayed natively on real datetime. Quick tier decides week-shaped inputs for 16 year residues mod 400 (every leap / weekday-of-1-January class); thorough for all years. str/stream inputs and longer strings are outside.", "§5 C20", "chx"),
 "C07": ("symbolic execution (CrossHair core + z3) of the real isoparser on structured ISO-8601 forms whose digits (and sign / free separator bytes) are solver variables; z3 proves accept-and-equal-denotation on every path; path-exhaustive per form",
         "model_checking",
         "Bounded symbolic model checking over the rendered fields: every datetime has exactly one rendering per form, so quantifying over all digit values of a form covers all datetimes in that form. "
         "Each path shows: a well-formed rendering is accepted, and the returned value equals the denotation (fraction truncation, 24:00, zero offset == tz.UTC, tzoffset seconds).",
         "Trusted: as C20. Forms outside the cell list, fractions longer than the listed digit counts, str/stream input equivalence and digit separators under sep=None are outside.", "§5 C07", "chx"),
 "C10": ("symbolic execution (CrossHair core + z3) of the real rruleset._iter / rrulebase caching with solver-integer instants; every coincidence/ordering pattern of up to 12 instants is a path; soundness+completeness+order of each listing asserted fork-free; path-exhaustive per operation history",
         "model_checking",
         "Bounded symbolic model checking over member instants (all orderings and coincidences) for a list of concrete add/iterate/query histories, cache on and off.",
         "Trusted: instants modelled as integers, stub rule members (iterables of increasing instants); heapq/sort under the tracer, each path witness replayed natively. Histories outside the cell list and >12 instants are outside.", "§5 C10", "chx"),
 "C12": ("symbolic execution (CrossHair core + z3) of rrulebase.__getitem__/__contains__/count/before/after/xafter/between over a carrier with solver-integer instants and symbolic query arguments, compared with Python list semantics; path-exhaustive per cell",
         "model_checking",
         "Bounded symbolic model checking: sequences of 0..4 symbolic instants, symbolic query instants (so equal-to-element / between / outside cases are solver cases), indices and slice bounds over -n-2..n+2 incl. None, inc both ways, after a prior query that varies the cache state.",
         "Trusted: carrier is rruleset with integer rdates (the query code is rrulebase's and type-agnostic); long-sequence cells (real rrule/rruleset, 0..25 daily occurrences, partially filled cache) and replace() cells (14 base rules x 30 named parameters vs the rule built afresh) pin every input per path and run natively; each path witness replayed natively.", "§5 C12", "chx"),
 "C11": ("symbolic schedules explored by CrossHair core + z3: (a) run-length-encoded interleavings of 2-3 live iterators and queries over the real _iter_cached with a model mutex; (b) _iter_cached re-parsed and rewritten (AST) into a step generator with a pre-emption point before every statement, two logical threads, switch points as solver variables; path-exhaustive per cell",
         "model_checking",
         "Bounded model checking of schedules: every schedule in the stated vocabulary/pre-emption bound is a path; each checks that every iterator/thread observes exactly the uncached sequence, nothing raises, no deadlock, the mutex is free at quiescence.",
         "Trusted: statement-granularity atomicity (attribute access, list ops atomic; advancing the shared generator is split into begin/end so re-entrancy is visible), the AST rewriting (its output is printed in DESIGN.md; sequential semantics preserved by construction), model lock. Real OS threads, >2 threads, pre-emption bound >2 are outside.", "§5 C11", "seqz"),
 "C18": ("histories and logical-thread schedules as solver variables explored by CrossHair core + z3: (a) sequences of request / fresh / drop+gc / cache_clear / set_cache_size over the real tzoffset, tzstr and gettz factories; (b) the factories' __call__ methods re-parsed and rewritten (AST) into step generators, two logical threads with symbolic switch points and a model mutex; (c) equality/copy/pickle laws on zones from small symbolic parameter ranges",
         "model_checking",
         "Bounded model checking of operation histories (length 3 quick / 4 thorough over a 7-10 operation vocabulary) and of two-thread schedules with pre-emption bound 1-2 at statement granularity; identity is demanded while the harness holds a reference.",
         "Trusted: CPython reference counting for weak entries (gc.collect() after a drop), GIL-granularity atomicity of dict/OrderedDict/WeakValueDictionary calls, the AST rewriting, the model mutex. All values are pinned per path (these cells enumerate a finite configuration space through the solver); real OS threads are outside.", "§5 C18", "seqz"),
 "C09": ("symbolic execution (CrossHair core + z3) of relativedelta(dt1, dt2) and of dt2 + r through the real __init__/__add__; months, days and times of both operands are solver variables, z3 proves inverse law, normalised ranges, sign consistency and maximality of the month part on each path; path-exhaustive per cell",
         "model_checking",
         "Bounded symbolic model checking: operand years are cell parameters (representative leap/century/boundary years, year difference per cell); everything else is symbolic over its full range.",
         "Trusted: CrossHair's datetime model with the calendar stubs (fork-free leap/ordinal terms, forward-map decomposition, field-triple memo), fork-free calendar.monthrange shim; each path witness replayed natively on real datetime. Years outside the cell list are outside; one thorough cell keeps both years symbolic.", "§5 C09", "chx"),
 "C03": ("symbolic execution (CrossHair core + z3) of date/datetime +- relativedelta through the real __add__/__radd__/__rsub__/__neg__ against an independent fork-free reference (replace, month shift with clipping, exact duration, weekday jump) in ordinal / microsecond-of-day space; path-exhaustive per cell",
         "model_checking",
         "Bounded symbolic model checking: operand year and relative years are cell parameters; month, day, time of day, relative months/days/leapdays/time fields, absolute fields (day up to 31) and weekday index/n are solver variables.",
         "Trusted: as C09; stored relative fields assumed normalised (C16 proves the constructor establishes that). yearday/nlyearday, aware operands and float fields are outside.", "§5 C03", "chx"),
 "C04": ("symbolic execution (CrossHair core + z3) of the real fromutc/utcoffset/astimezone of every zone with the UTC instant as solver variable over the zone's whole transition table; the zone's bisects fork into one path per transition interval so both sides of every transition are decided by z3",
         "model_checking",
         "Bounded symbolic model checking: for each zone object (tzutc, tzoffset with symbolic offset, every distinct TZif file) every UTC instant in [first transition - 10**6 s, last + 10**6 s] is covered; z3 proves wall - utc == utcoffset and the round trip on each interval or returns the instant that breaks it.",
         "%s Rule zones (tzstr/tzrange/tzlocal/tzical) get the same clauses in the C08/C17 cells. ~440 transitions of ~230 zones fail on the unchanged tree (tzfile heuristics): listed individually in known_findings.txt by zone and transition index." % TS, "§5 C04", "chx"),
 "C05": ("symbolic execution (CrossHair core + z3) of datetime_exists / datetime_ambiguous / utcoffset(fold) / fromutc / resolve_imaginary with the naive wall time as solver variable; the number of UTC pre-images is one fork-free formula over an independent reading of the TZif data",
         "model_checking",
         "Bounded symbolic model checking per zone: all wall times over the transition table; exists <=> >=1 pre-image, ambiguous <=> 2, fold 0/1 = earlier/later, fold irrelevant when unique, resolve_imaginary moves by the gap width.",
         TS + " Known findings listed per zone/transition/clause.", "§5 C05", "chx"),
 "C06": ("symbolic execution (CrossHair core + z3): (a) every instant of every installed TZif file vs an independent reader of the v1 block; (b) SYMBOLIC TZif content -- struct.unpack replaced by a model handing out solver variables for transition times / type indices / ttinfo of files with <=3 transitions and <=3 types; (c) load-path equivalence (name, path, stream, ZoneInfoFile archive with link, copy, pickle) at a symbolic instant",
         "model_checking",
         "Bounded symbolic model checking; (b) quantifies over all small TZif files, so transition shapes absent from real data are covered.",
         TS + " 'The data' = version-1 block. Known findings: last-transition-into-DST shapes and the zones/transitions listed.", "§5 C06", "chx"),
 "C08": ("symbolic execution (CrossHair core + z3) of tzstr / tzrange / tzlocal with the instant (UTC resp. wall) as solver variable against break points from an independent POSIX TZ implementation; tzlocal runs on a platform model (time.localtime etc.) following the same rule",
         "model_checking",
         "Bounded symbolic model checking per (rule, year, zone kind): every second of the year +-3 days; offset, abbreviation, dst, round trip, exists/ambiguous/fold clauses.",
         TS + " Rules and years are enumerated cells (9-17 rule specs x 1-6 years); malformed strings: a hand-written list plus every prefix / one-character deletion of the well-formed specs (pinned, native); arbitrary malformed text is outside. Known findings: tzstr rules whose end time is below the saving or 24:00; lenient tokeniser acceptances.", "§5 C08", "chx"),
 "C17": ("symbolic execution (CrossHair core + z3) of tzical zones parsed from generated VTIMEZONE text (RRULE / RDATE / swapped / folded / two zones) with the instant as solver variable, against the same independent POSIX reference as C08",
         "model_checking",
         "Bounded symbolic model checking per (rule, variant, year): every second of a year within 6 years after the first onset; plus structural malformed-definition and get()/keys() cells.",
         TS + " J/n rule forms and all-DAYLIGHT definitions are outside; instants before the first onset are covered by the two-STANDARD-component cells only.", "§5 C17", "chx"),
 "C01": ("(1) symbolic execution (CrossHair core + z3) of the kernels __mod_distance, __construct_byset and the constructor's BY-part normalisation with solver-variable values; (2) end-to-end prefixes of ~50 rule shapes x 3-5 start dates, once per calendar class (weekday of 1 Jan + leap flags of the touched years; classes enumerated through the engine, all years 2..9990 covered by an exhaustive native class scan), compared with an independent brute-force RFC 5545 reference",
         "other",
         "Layer (1) is bounded symbolic model checking. Layer (2) is class enumeration with concrete execution per class: a symbolic start year made every calendar query `unknown` (measured), so the solver does not decide this layer; it is kept because it is what detects iteration/carry/mask regressions.",
         "Trusted: the reference implementation harness/rfc5545.py (agrees with dateutil on 10 000 random rules apart from the recorded findings); the paper argument that rrule's behaviour is uniform within a calendar class. Shapes/starts outside the cell list, prefixes beyond K are outside.", "§5 C01", "chx"),
 "C02": ("symbolic execution (CrossHair core + z3) of the real parser (_parse, _parse_numeric_token, _ymd.resolve_ymd, _build_naive, _build_tzaware) on ~30-70 text templates whose digits are solver variables; kernels resolve_ymd / convertyear / _adjust_ampm with symbolic values; path-exhaustive per template; the fraction-scaling kernel _parsems is re-read from the source and translated to QF_BVFP (digit runs as bit-vectors, float() / * / int() with IEEE binary64 semantics), one unsat obligation per text shape",
         "model_checking",
         "Bounded symbolic model checking: for each template every value of every digit-bearing field (valid calendar/clock values) is covered; z3 proves on each path that the parsed datetime equals the rendered fields, truncated to the rendered precision, aware with the rendered offset.",
         "%s Month/weekday names are enumerated templates; free text, fractions > 6 digits in the template cells (the _parsems obligations go to 7 / 12 digits), bytes/stream input are outside. Local zone names fixed to non-UTC names." % PT, "§5 C02", "chx"),
 "C14": ("symbolic execution (CrossHair core + z3) of the real parser on ~300 templates whose digits are UNCONSTRAINED solver variables (field lengths 1..40 digits, all separators, am/pm, h/m/s labels, offsets) under the option combinations; any exception other than ParserError/OverflowError is a violation; the call is repeated inside the path to detect state",
         "model_checking",
         "Bounded symbolic model checking of exception-type totality and determinism over all digit values per template.",
         PT + " Arbitrary Unicode/letters inside numbers (beyond the adversarial tails of the prompt-termination cells) and the tzinfos option are outside.", "§5 C14", "chx"),
 "C15": ("symbolic execution (CrossHair core + z3): _build_naive on directly constructed results (symbolic field values and default), the zone-resolution cascade _build_tzaware/validate with a symbolic offset and a name vocabulary under every tzinfos form, GMT+h sign templates, and fuzzy / fuzzy_with_tokens agreement on C02 templates inside filler sentences",
         "model_checking",
         "Bounded symbolic model checking of the option semantics: clipping/weekday shift for all default month/day values, the documented zone precedence for all offsets, fuzzy variants agreeing with the plain parse for all digit values.",
         PT + " Filler sentences and the name vocabulary are fixed lists.", "§5 C15", "chx"),
 "C13": ("rule parameters (interval, count, one BY member) as solver variables pinned per path over C01's shape set; str(rule) -> rrulestr and an independently rendered RFC 5545 text in 6 spellings -> rrulestr compared with the keyword construction by normalised state and occurrence prefix; option / malformed-text cells",
         "other",
         "Configuration enumeration through the engine (the solver only enumerates the pinned parameter values; the text handling of rrulestr runs natively because string operations on symbolic numbers realise them): not a symbolic proof.",
         "Trusted: state equality + 4-occurrence prefix as the meaning of 'same occurrences'; the independent renderer in harness/c13.py.", "§5 C13", "chx"),
}
NA = {}

def main():
    props = [json.loads(l)["id"] for l in open(os.path.join(HERE, "properties.jsonl"))]
    checks = []
    for pid in props:
        if pid in CHECKS:
            tech, cat, text, note, ref, eng = CHECKS[pid]
            checks.append(dict(property_id=pid, quick_cmd="./check %s --tier quick" % pid,
                               thorough_cmd="./check %s --tier thorough" % pid,
                               evidence_file="evidence/%s.json" % pid,
                               replay_cmd_template="./check %s --replay {path}" % pid,
                               engine=eng, technique=tech,
                               level_claimed=dict(category=cat, text=text, design_ref=ref), level_note=note))
    na = [dict(property_id=p, reason=NA.get(p, "check not built yet (work in progress; see DESIGN.md §5 for the plan)"))
          for p in props if p not in CHECKS]
    m = dict(version=1, setup_cmd="./setup.sh",
             hooks=dict(guard="DATEUTIL_VERIF", enable="no source hooks: instrumentation is done by AST re-parsing and by rebinding module globals at run time",
                        baseline_off_cmd="cd /repo && /venv/bin/python -m pytest -ra -q -p no:cacheprovider --timeout=900 --continue-on-collection-errors",
                        source_commits=[], add_only=True),
             engines=[dict(name="chx", path="engine/chx.py", serves_properties=sorted(p for p in CHECKS if CHECKS[p][5] == "chx"),
                           kind_free_text="path-exhaustive symbolic execution of the real Python code (CrossHair 0.0.110 as a library, z3 5.1) with per-path native witness replay"),
                      dict(name="astbv", path="engine/astbv.py", serves_properties=sorted(p for p in CHECKS if CHECKS[p][5] == "astbv"),
                           kind_free_text="AST -> SMT translation of integer kernels re-read from /repo on every run; unsat queries on the negated property"),
                      dict(name="seqz", path="engine/seqz.py", serves_properties=sorted(p for p in CHECKS if CHECKS[p][5] == "seqz"),
                           kind_free_text="AST sequentialisation of lock-protected code into step generators; schedules are symbolic variables explored by chx")],
             checks=checks, not_applicable=na,
             notes="Exit codes: 0 ok / only known findings; 1 replay-confirmed VIOLATION; 3 engine or harness error (never a violation claim). "
                   "Known findings: known_findings.txt. All checks import dateutil from /repo/src (VERIF_REPO_SRC overrides).")
    json.dump(m, open(os.path.join(HERE, "MANIFEST.json"), "w"), indent=1)
    print("checks:", [c["property_id"] for c in checks], "na:", len(na))

if __name__ == "__main__":
    main()
