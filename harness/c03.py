"""C03 date + relativedelta follows replace / shift / clip / duration / weekday, in that order."""
from engine import chx, report, stubs
from engine import sym as S
from engine.chx import Cell
from harness.c09 import rd_stubs, _prep

M = "harness.c03"
DAY_US = 86400 * 10 ** 6


def h_add(kind, y, years, absf, wd, op, md=None, mrange=11):
    """kind: 'date' | 'datetime'.  y: operand year (cell).  years: relative years (cell).  absf: tuple of absolute
    field names given.  wd: None | 'pos' | 'neg' (weekday with symbolic index and n).  op: 'add' | 'radd' | 'sub'."""
    import datetime
    from dateutil.relativedelta import relativedelta
    from dateutil._common import weekday as wdcls
    _prep()
    types = dict(m=int, d=int, months=int, days=int, leapdays=int)
    timed = kind == "datetime"
    has_time_fields = any(f in absf for f in ("hour", "minute", "second", "microsecond")) or "reltime" in absf
    if timed:
        types.update(sod=int, us=int)
    if "reltime" in absf:
        types.update(hours=int, minutes=int, seconds=int, microseconds=int)
    for f in absf:
        if f != "reltime":
            types["a_" + f] = int
    if wd:
        types.update(w=int, n=int)
    ABS_RANGE = dict(year=(y - 1, y + 1), month=(1, 12), day=(1, 31), hour=(0, 23), minute=(0, 59), second=(0, 59),
                     microsecond=(0, 999999))

    def fn(ctx, **kw):
        m, d = kw["m"], kw["d"]
        if md is not None:              # operand month/day pinned by the cell (time-heavy cells of the quick tier)
            ctx.assume(m == md[0])
            ctx.assume(d == md[1])
            m, d = md
        ctx.assume(S.valid_ymd(y, m, d))
        months, days, leapdays = kw["months"], kw["days"], kw["leapdays"]
        ctx.assume(S.within(months, -mrange, mrange))       # beyond 11 the constructor carries whole years out of the months
        ctx.assume(S.within(days, -800, 800))
        ctx.assume(S.within(leapdays, -1, 1))
        sod = us = 0
        if timed:
            sod, us = kw["sod"], kw["us"]
            ctx.assume(S.within(sod, 0, 86399))
            ctx.assume(S.within(us, 0, 999999))
            operand = datetime.datetime(y, m, d, S.div(sod, 3600), S.div(S.mod(sod, 3600), 60), S.mod(sod, 60), us)
        else:
            operand = datetime.date(y, m, d)
        rel = dict(years=years, months=months, days=days, leapdays=leapdays)
        hours = minutes = seconds = microseconds = 0
        if "reltime" in absf:
            hours, minutes, seconds, microseconds = kw["hours"], kw["minutes"], kw["seconds"], kw["microseconds"]
            ctx.assume(S.within(hours, -23, 23))
            ctx.assume(S.within(minutes, -59, 59))
            ctx.assume(S.within(seconds, -59, 59))
            ctx.assume(S.within(microseconds, -999999, 999999))
            rel.update(hours=hours, minutes=minutes, seconds=seconds, microseconds=microseconds)
        ab = {}
        for f in absf:
            if f == "reltime":
                continue
            v = kw["a_" + f]
            lo, hi = ABS_RANGE[f]
            ctx.assume(S.within(v, lo, hi))
            if f == "year":
                v = ctx.concrete(v)
            ab[f] = v
        if wd:
            w, n = kw["w"], kw["n"]
            ctx.assume(S.within(w, 0, 6))
            ctx.assume(S.within(n, 1, 5) if wd == "pos" else S.within(n, -5, -1))
            w = ctx.concrete(w)               # the weekday object indexes a tuple of names in __repr__ only; pinned for the constructor
            ab["weekday"] = wdcls(w, n)
        delta = relativedelta(**rel, **ab)
        neg = op == "sub"
        try:
            if op == "add":
                got = operand + delta
            elif op == "radd":
                got = delta + operand
            else:
                got = operand - delta
        except (OverflowError, ValueError) as e:      # legitimate only when the sum leaves 0001-01-01 .. 9999-12-31 (checked below)
            got = None
            range_exc = type(e).__name__
        except Exception as e:
            ctx.fail("%s raised %s: %s" % (op, type(e).__name__, str(e)[:80]), key="raises:%s" % type(e).__name__)
        # ---------------- reference (ordinal / microsecond-of-day space, fork-free)
        sg = -1 if neg else 1                           # dt - rd == dt + (-rd): relative parts negated, absolute kept
        Y0 = ab.get("year", y) + sg * years
        M0 = S.add(ab.get("month", m), S.mulc(months, sg))
        if mrange <= 11:
            up, down = S.lt(12, M0), S.lt(M0, 1)
            Y0 = S.add(Y0, S.b2i(up), S.mulc(S.b2i(down), -1))
            M0 = S.add(M0, S.ite(up, -12, 0), S.ite(down, 12, 0))
        else:                 # any number of whole years carried by the month total
            q = ctx.split(S.div(S.sub(M0, 1), 12), range(-(mrange // 12) - 2, mrange // 12 + 3))     # whole years carried: one path each
            Y0 = S.add(Y0, q)
            M0 = S.sub(M0, 12 * q)
        dim = S.days_in_month(Y0, M0)
        dd = ab.get("day", d)
        D0 = S.ite(S.lt(dim, dd), dim, dd)
        O0 = S.ordinal(Y0, M0, D0)
        hh = ab.get("hour", S.div(sod, 3600))
        mi = ab.get("minute", S.div(S.mod(sod, 3600), 60))
        ss = ab.get("second", S.mod(sod, 60))
        uu = ab.get("microsecond", us)
        T0 = S.add(S.mulc(S.add(S.mulc(hh, 3600), S.mulc(mi, 60), ss), 10 ** 6), uu)
        dayz = S.add(S.mulc(days, sg), S.ite(S.and_(S.lt(2, M0), S.is_leap(Y0)), leapdays, 0))
        dur = S.add(S.mulc(S.add(S.mulc(S.add(S.mulc(S.add(S.mulc(dayz, 24), S.mulc(hours, sg)), 60), S.mulc(minutes, sg)), 60),
                                 S.mulc(seconds, sg)), 10 ** 6), S.mulc(microseconds, sg))
        tot = S.add(T0, dur)
        O1 = S.add(O0, S.div(S.add(tot, 4000 * DAY_US), DAY_US), -4000)
        T1 = S.mod(S.add(tot, 4000 * DAY_US), DAY_US)
        if wd:
            now = S.mod(S.add(O1, 6), 7)
            an = S.ite(S.lt(n, 0), S.mulc(n, -1), n)
            fwd = S.mod(S.add(S.sub(w, now), 7), 7)
            bwd = S.mod(S.add(S.sub(now, w), 7), 7)
            jump = S.ite(S.lt(0, n), S.add(S.mulc(S.sub(an, 1), 7), fwd), S.mulc(S.add(S.mulc(S.sub(an, 1), 7), bwd), -1))
            O2 = S.add(O1, jump)
        else:
            O2 = O1
        if got is None:
            MAXO = 3652059
            ctx.check(S.not_(S.and_(S.within(O1, 1, MAXO), S.within(O2, 1, MAXO))),
                      "%s raised %s although every intermediate and the result are representable dates" % (op, range_exc), key="raises:%s" % range_exc)
            return "out-of-range"
        abs_time = any(f in absf for f in ("hour", "minute", "second", "microsecond"))
        rel_time = S.not_(S.and_(S.eq(hours, 0), S.eq(minutes, 0), S.eq(seconds, 0), S.eq(microseconds, 0)))
        promoted = S.or_(timed, abs_time, rel_time)
        isdt = isinstance(got, datetime.datetime)
        ctx.check(S.eq(isdt, promoted), "date operand promoted to datetime exactly when the delta carries time information: violated",
                  key="promotion")
        ctx.check(S.eq(got.toordinal(), O2), "wrong calendar day", key="day%s" % ("-weekday" if wd else ""))
        if isdt:
            gt = S.add(S.mulc(S.add(S.mulc(got.hour, 3600), S.mulc(got.minute, 60), got.second), 10 ** 6), got.microsecond)
            ctx.check(S.eq(gt, T1), "wrong time of day", key="time")
        return "datetime" if isdt else "date"
    return fn, types, rd_stubs


def cells(tier):
    q = tier == "quick"
    cs = []

    def add(kind, y, years, absf, wd, op, budget, md=None, mrange=None):
        p = dict(kind=kind, y=y, years=years, absf=list(absf), wd=wd, op=op)
        if mrange:
            p["mrange"] = mrange
        if md:
            p["md"] = list(md)
        cs.append(Cell(M, "h_add", p, budget_s=budget, per_path_s=30))
    if q:
        for absf in ((), ("day",), ("month", "day")):
            for wd in (None, "pos", "neg"):
                add("date", 2024, 0, absf, wd, "add", 200)
        add("date", 2024, 1, (), None, "add", 200)
        add("date", 1900, 0, ("day",), None, "add", 200)
        add("date", 2024, 1, (), None, "add", 200, mrange=40)        # relative years together with months that carry
        add("date", 2024, -2, ("month",), None, "sub", 200, mrange=40)
        add("date", 2024, 0, (), None, "sub", 200)
        add("date", 2024, 0, ("reltime",), None, "add", 250, md=(1, 31))
        add("date", 2024, 0, ("hour", "minute", "second", "microsecond"), None, "add", 200, md=(2, 29))
        add("datetime", 2024, 0, (), None, "add", 250)
        add("datetime", 2024, 0, ("reltime",), None, "add", 250, md=(12, 31))
        add("datetime", 2024, 0, ("reltime",), "pos", "add", 250, md=(3, 10))
        add("date", 2024, 0, ("reltime",), "neg", "add", 250, md=(3, 10))
        return cs
    pats = [(), ("day",), ("month", "day"), ("reltime",), ("hour", "minute", "second", "microsecond"),
            ("year", "month", "day"), ("day", "reltime"), ("month",), ("year",)]
    # sized to stay under an hour on 16 cores: the full field patterns x weekday x operator at 2024, the calendar patterns elsewhere
    for kind in ("date", "datetime"):
        for y in ((2024, 1900, 2000, 3, 9997) if kind == "date" else (2024,)):
            for years in ((-1, 0, 1) if (kind == "date" and y == 2024) else (0,)):
                full = y == 2024 and years == 0
                for absf in ((pats if kind == "date" else pats[:5]) if full else pats[:3] + pats[5:6]):
                    for wd in ((None, "pos", "neg") if full else (None, "pos")):
                        for op in (("add", "sub", "radd") if (full and kind == "date") else (("add", "sub") if full else ("add",))):
                            add(kind, y, years, absf, wd, op, 900)
    for years in (-3, 1):
        for absf in ((), ("month",)):
            for op in ("add", "sub"):
                add("date", 2024, years, absf, None, op, 900, mrange=60)
    return cs


ASSUMPTIONS = [
    "operand year and the relative `years` are cell parameters (representative leap / century / boundary years); month, day, time of day, "
    "relative months (-11..11; -40..40 / -60..60 in the cells that combine relative years with months that carry), days (-800..800), leapdays (-1..1), normalised relative time fields, absolute fields over their legal ranges "
    "(day up to 31 so clipping is exercised) and the weekday index/n (1..5 resp. -5..-1) are solver variables",
    "stored relative fields are assumed normalised (what C16 proves every constructor establishes)",
    "`calendar` as seen from dateutil.relativedelta = fork-free monthrange/isleap; CrossHair datetime model + calendar stubs; witnesses replayed natively",
]
OUTSIDE = ["years outside the cell list", "yearday / nlyearday (converted to month/day by the constructor)", "aware operands (tzinfo is carried through replace() untouched)",
           "float fields"]


def run(tier, seed, jobs):
    cs = report.filter_cells(cells(tier))
    res = chx.run_cells(cs, jobs)
    return report.aggregate("C03", res, assumptions=ASSUMPTIONS, bounds=dict(cells=len(cs)), outside=OUTSIDE,
                            stubs=["calendar shim", "calendar stubs"])
