#!/bin/sh
# Build the overlay venv used by every check (offline; idempotent).
set -e
cd "$(dirname "$0")"
V=./.venv
if [ ! -x "$V/bin/python" ] || ! "$V/bin/python" -c "import crosshair, z3" 2>/dev/null; then
    rm -rf "$V"
    /venv/bin/python -m venv "$V"
    SP=$("$V/bin/python" -c "import sysconfig; print(sysconfig.get_paths()['purelib'])")
    printf "import site; site.addsitedir('/venv/lib/python3.12/site-packages')\n" > "$SP/zz_venv_overlay.pth"
    PIP_NO_INDEX=1 "$V/bin/pip" install -q --no-index --find-links /opt/veriftools/wheels crosshair-tool z3-solver >/dev/null
fi
"$V/bin/python" -c "import crosshair, z3; print('overlay ok', crosshair.__version__ if hasattr(crosshair,'__version__') else '', z3.get_version_string())"
