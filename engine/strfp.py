"""E2b: AST -> SMT translation of small "digit string" kernels with IEEE-754 semantics (QF_BVFP).

Some kernels of the generic parser turn the text of a number into a value with string operations
(`split`, `ljust`, slicing, `int`, `float`).  CrossHair realises such strings; here the function is re-read from the
CURRENT source and interpreted over abstract values:

  DStr   a string whose shape is fixed by the cell -- a sequence of literal pieces and digit runs; a digit run is a
         64-bit bit-vector term (its value) together with its length k (so leading zeros are part of the value space)
  Int    a 64-bit bit-vector term (all values of the kernels stay far below 2**63: digit runs of at most 15 digits)
  Flt    a z3 Float64 term: float(<digits>.<digits>) is the correctly rounded quotient numerator / 10**k (both exactly
         representable for <= 15 digits, IEEE division is correctly rounded, and so is CPython's strtod), `*`, `/`, `+`,
         `-` round to nearest even, int() truncates toward zero
  concrete Python values (str, int, bool, None, tuples)

Anything else raises Unsupported (the caller reports the obligation as inconclusive, never as a pass).
"""
import ast

import z3

W = 64
F64 = z3.Float64()
RNE = z3.RNE()
RTZ = z3.RTZ()


class Unsupported(Exception):
    pass


class Digits(object):
    def __init__(self, term, k):
        self.term, self.k = term, k


class DStr(object):
    """pieces: list of str | Digits"""

    def __init__(self, pieces):
        out = []
        for p in pieces:
            if isinstance(p, str):
                if not p:
                    continue
                if out and isinstance(out[-1], str):
                    out[-1] += p
                    continue
            elif p.k == 0:
                continue
            out.append(p)
        self.pieces = out

    def length(self):
        return sum(len(p) if isinstance(p, str) else p.k for p in self.pieces)


def bv(v):
    return z3.BitVecVal(v, W)


def _is_bv(v):
    return z3.is_bv(v)


def _digits_value(ds):
    """value of a DStr made of digit runs and literal digit characters only -> (term, k) or None"""
    term, k = bv(0), 0
    for p in ds.pieces:
        if isinstance(p, str):
            if not p.isdigit() or not p.isascii():
                return None
            term = term * bv(10 ** len(p)) + bv(int(p))
            k += len(p)
        else:
            term = term * bv(10 ** p.k) + p.term
            k += p.k
    if k == 0 or k > 15:
        return None
    return term, k


def _slice_digits(d, lo, hi):
    """characters lo..hi of a digit run of length k (0 <= lo <= hi <= k)"""
    if lo == hi:
        return None
    t = d.term
    if hi < d.k:
        t = z3.UDiv(t, bv(10 ** (d.k - hi)))
    if lo > 0:
        t = z3.URem(t, bv(10 ** (hi - lo)))
    return Digits(t, hi - lo)


class Interp(object):
    def __init__(self, path, qualname):
        src = open(path, encoding="utf-8").read()
        mod = ast.parse(src)
        node = mod
        for part in qualname.split("."):
            nxt = None
            for n in node.body:
                if isinstance(n, (ast.FunctionDef, ast.ClassDef)) and n.name == part:
                    nxt = n
            if nxt is None:
                raise Unsupported("%s not found in %s" % (qualname, path))
            node = nxt
        self.fn = node
        self.source = ast.get_source_segment(src, node)

    # ---------------------------------------------------------------- entry
    def call(self, *args):
        params = [a.arg for a in self.fn.args.args]
        if params and params[0] == "self":
            params = params[1:]
        if len(params) != len(args):
            raise Unsupported("arity")
        env = dict(zip(params, args))
        kind, val = self.block(self.fn.body, env)
        if kind != "return":
            raise Unsupported("function may end without return")
        return val

    # ---------------------------------------------------------------- statements -> ("return", value) | ("next", env)
    def block(self, stmts, env):
        for i, st in enumerate(stmts):
            if isinstance(st, ast.Expr) and isinstance(st.value, ast.Constant):
                continue       # docstring
            if isinstance(st, ast.Return):
                return "return", self.expr(st.value, env)
            if isinstance(st, ast.Assign) and len(st.targets) == 1:
                self.assign(st.targets[0], self.expr(st.value, env), env)
                continue
            if isinstance(st, ast.If):
                c = self.expr(st.test, env)
                rest = stmts[i + 1:]
                if isinstance(c, bool):
                    return self.block((st.body if c else st.orelse) + rest, env)
                if not z3.is_bool(c):
                    raise Unsupported("condition")
                ka, va = self.block(st.body + rest, dict(env))
                kb, vb = self.block(st.orelse + rest, dict(env))
                if ka != "return" or kb != "return":
                    raise Unsupported("branch without return")
                return "return", self.merge(c, va, vb)
            raise Unsupported("statement %s" % type(st).__name__)
        return "next", env

    def merge(self, c, a, b):
        if isinstance(a, tuple) and isinstance(b, tuple) and len(a) == len(b):
            return tuple(self.merge(c, x, y) for x, y in zip(a, b))
        a, b = self.as_int(a), self.as_int(b)
        return z3.If(c, a, b)

    def assign(self, target, value, env):
        if isinstance(target, ast.Name):
            env[target.id] = value
        elif isinstance(target, (ast.Tuple, ast.List)):
            if not isinstance(value, (tuple, list)) or len(value) != len(target.elts):
                raise Unsupported("unpacking")       # a wrong arity would be a ValueError in Python: shapes are fixed per cell
            for t, v in zip(target.elts, value):
                self.assign(t, v, env)
        else:
            raise Unsupported("assignment target")

    # ---------------------------------------------------------------- expressions
    def as_int(self, v):
        if isinstance(v, bool):
            raise Unsupported("bool as int")
        if isinstance(v, int):
            return bv(v)
        if _is_bv(v):
            return v
        raise Unsupported("integer expected")

    def as_flt(self, v):
        if z3.is_fp(v):
            return v
        if isinstance(v, float):
            return z3.FPVal(v, F64)
        if isinstance(v, int) and not isinstance(v, bool):
            return z3.FPVal(float(v), F64)
        if _is_bv(v):
            return z3.fpSignedToFP(RNE, v, F64)
        raise Unsupported("float expected")

    def expr(self, node, env):
        if isinstance(node, ast.Constant):
            if isinstance(node.value, (str, int, float, bool)) or node.value is None:
                return node.value
            raise Unsupported("constant")
        if isinstance(node, ast.Name):
            if node.id in env:
                return env[node.id]
            raise Unsupported("name %s" % node.id)
        if isinstance(node, ast.Tuple):
            return tuple(self.expr(e, env) for e in node.elts)
        if isinstance(node, ast.UnaryOp) and isinstance(node.op, ast.Not):
            c = self.expr(node.operand, env)
            return (not c) if isinstance(c, bool) else z3.Not(c)
        if isinstance(node, ast.UnaryOp) and isinstance(node.op, ast.USub):
            v = self.expr(node.operand, env)
            if isinstance(v, (int, float)):
                return -v
            if z3.is_fp(v):
                return z3.fpNeg(v)
            return -self.as_int(v)
        if isinstance(node, ast.Compare) and len(node.ops) == 1:
            a, b = self.expr(node.left, env), self.expr(node.comparators[0], env)
            op = node.ops[0]
            if isinstance(op, (ast.In, ast.NotIn)):
                r = self.contains(b, a)
                return r if isinstance(op, ast.In) else (not r)
            if isinstance(a, (int, str)) and isinstance(b, (int, str)) and not isinstance(a, bool):
                return {ast.Lt: a < b, ast.LtE: a <= b, ast.Gt: a > b, ast.GtE: a >= b, ast.Eq: a == b, ast.NotEq: a != b}[type(op)]
            a, b = self.as_int(a), self.as_int(b)
            return {ast.Lt: a < b, ast.LtE: a <= b, ast.Gt: a > b, ast.GtE: a >= b, ast.Eq: a == b, ast.NotEq: a != b}[type(op)]
        if isinstance(node, ast.BinOp):
            a, b = self.expr(node.left, env), self.expr(node.right, env)
            return self.binop(node.op, a, b)
        if isinstance(node, ast.Subscript):
            return self.subscript(self.expr(node.value, env), node.slice, env)
        if isinstance(node, ast.Call):
            return self.callexpr(node, env)
        if isinstance(node, ast.IfExp):
            c = self.expr(node.test, env)
            if isinstance(c, bool):
                return self.expr(node.body if c else node.orelse, env)
            return self.merge(c, self.expr(node.body, env), self.expr(node.orelse, env))
        raise Unsupported("expression %s" % type(node).__name__)

    def contains(self, hay, needle):
        if isinstance(hay, str) and isinstance(needle, str):
            return needle in hay
        if isinstance(hay, DStr) and isinstance(needle, str) and len(needle) == 1 and not needle.isdigit():
            return any(isinstance(p, str) and needle in p for p in hay.pieces)
        raise Unsupported("containment")

    def binop(self, op, a, b):
        strish = lambda v: isinstance(v, (str, DStr))
        if isinstance(op, ast.Add) and strish(a) and strish(b):
            pa = a.pieces if isinstance(a, DStr) else [a]
            pb = b.pieces if isinstance(b, DStr) else [b]
            return DStr(list(pa) + list(pb))
        if isinstance(op, ast.Mult) and isinstance(a, str) and isinstance(b, int):
            return a * b
        if isinstance(a, (int, float)) and isinstance(b, (int, float)) and not isinstance(a, bool):
            import operator
            fn = {ast.Add: operator.add, ast.Sub: operator.sub, ast.Mult: operator.mul, ast.Pow: operator.pow,
                  ast.FloorDiv: operator.floordiv, ast.Mod: operator.mod, ast.Div: operator.truediv}.get(type(op))
            if fn is None:
                raise Unsupported("operator")
            return fn(a, b)
        if z3.is_fp(a) or z3.is_fp(b) or isinstance(a, float) or isinstance(b, float) or isinstance(op, ast.Div):
            x, y = self.as_flt(a), self.as_flt(b)
            if isinstance(op, ast.Add):
                return z3.fpAdd(RNE, x, y)
            if isinstance(op, ast.Sub):
                return z3.fpSub(RNE, x, y)
            if isinstance(op, ast.Mult):
                return z3.fpMul(RNE, x, y)
            if isinstance(op, ast.Div):
                return z3.fpDiv(RNE, x, y)
            raise Unsupported("float operator")
        x, y = self.as_int(a), self.as_int(b)
        if isinstance(op, ast.Add):
            return x + y
        if isinstance(op, ast.Sub):
            return x - y
        if isinstance(op, ast.Mult):
            return x * y
        if isinstance(op, (ast.FloorDiv, ast.Mod)) and isinstance(b, int) and b > 0:
            # Python floor semantics for a positive constant divisor
            q = z3.If(x >= 0, z3.UDiv(x, y), -z3.UDiv(-x + y - 1, y))
            return q if isinstance(op, ast.FloorDiv) else x - q * y
        raise Unsupported("integer operator")

    def subscript(self, v, sl, env):
        if isinstance(sl, ast.Slice):
            lo = self.expr(sl.lower, env) if sl.lower is not None else None
            hi = self.expr(sl.upper, env) if sl.upper is not None else None
            if sl.step is not None or not all(x is None or (isinstance(x, int) and not isinstance(x, bool)) for x in (lo, hi)):
                raise Unsupported("slice")
            if isinstance(v, str):
                return v[lo:hi]
            if isinstance(v, DStr):
                n = v.length()
                lo2, hi2, _ = slice(lo, hi).indices(n)
                out, pos = [], 0
                for p in v.pieces:
                    ln = len(p) if isinstance(p, str) else p.k
                    a, b = max(lo2, pos), min(hi2, pos + ln)
                    if a < b:
                        if isinstance(p, str):
                            out.append(p[a - pos:b - pos])
                        else:
                            out.append(_slice_digits(p, a - pos, b - pos))
                    pos += ln
                return DStr([o for o in out if o is not None])
            raise Unsupported("slice of %s" % type(v).__name__)
        i = self.expr(sl, env)
        if isinstance(v, (tuple, list)) and isinstance(i, int):
            return v[i]
        raise Unsupported("index")

    def callexpr(self, node, env):
        if node.keywords:
            raise Unsupported("keyword arguments")
        args = [self.expr(a, env) for a in node.args]
        if isinstance(node.func, ast.Name):
            name = node.func.id
            if name == "int" and len(args) == 1:
                v = args[0]
                if isinstance(v, (str, int)) and not isinstance(v, bool):
                    return int(v)
                if isinstance(v, DStr):
                    dv = _digits_value(v)
                    if dv is None:
                        raise Unsupported("int() of a non-digit string")       # would raise ValueError: not a shape of these cells
                    return dv[0]
                if z3.is_fp(v):
                    return z3.fpToSBV(RTZ, v, z3.BitVecSort(W))
                return self.as_int(v)
            if name == "float" and len(args) == 1:
                v = args[0]
                if isinstance(v, DStr):
                    return self.float_of(v)
                if isinstance(v, (int, float, str)) and not isinstance(v, bool):
                    return float(v)
                return self.as_flt(v)
            if name == "len" and len(args) == 1 and isinstance(args[0], (str, DStr)):
                return len(args[0]) if isinstance(args[0], str) else args[0].length()
            if name == "round" and len(args) == 1 and z3.is_fp(args[0]):
                return z3.fpToSBV(RNE, z3.fpRoundToIntegral(RNE, args[0]), z3.BitVecSort(W))
            raise Unsupported("call %s" % name)
        if isinstance(node.func, ast.Attribute):
            obj = self.expr(node.func.value, env)
            m = node.func.attr
            if isinstance(obj, str) and all(isinstance(a, (str, int)) for a in args):
                return getattr(obj, m)(*args)
            if isinstance(obj, DStr):
                if m == "split" and len(args) == 1 and isinstance(args[0], str) and len(args[0]) == 1 and not args[0].isdigit():
                    parts, cur = [], []
                    for p in obj.pieces:
                        if isinstance(p, str):
                            segs = p.split(args[0])
                            cur.append(segs[0])
                            for sgm in segs[1:]:
                                parts.append(DStr(cur))
                                cur = [sgm]
                        else:
                            cur.append(p)
                    parts.append(DStr(cur))
                    return parts
                if m in ("ljust", "rjust", "zfill") and args and isinstance(args[0], int):
                    fill = args[1] if len(args) > 1 else " "
                    if m == "zfill":
                        fill = "0"
                    pad = max(0, args[0] - obj.length())
                    if not isinstance(fill, str) or len(fill) != 1:
                        raise Unsupported("fill character")
                    return DStr(obj.pieces + [fill * pad]) if m == "ljust" else DStr([fill * pad] + obj.pieces)
                if m in ("strip", "rstrip", "lstrip") and not args:
                    return obj        # shapes of these cells carry no white space
            raise Unsupported("method %s" % m)
        raise Unsupported("call")

    def float_of(self, ds):
        """float(text) for text = [digits] [ '.' [digits] ] -- correctly rounded."""
        pieces = ds.pieces
        dots = sum(p.count(".") for p in pieces if isinstance(p, str))
        if dots == 0:
            dv = _digits_value(ds)
            if dv is None:
                raise Unsupported("float() of this text")
            return z3.fpSignedToFP(RNE, dv[0], F64)
        if dots != 1:
            raise Unsupported("float() of this text")
        left, right, seen = [], [], False
        for p in pieces:
            if isinstance(p, str) and "." in p:
                a, b = p.split(".")
                left.append(a)
                right.append(b)
                seen = True
            else:
                (right if seen else left).append(p)
        L, R = DStr(left), DStr(right)
        lv = _digits_value(L) if L.pieces else (bv(0), 0)
        rv = _digits_value(R) if R.pieces else (bv(0), 0)
        if lv is None or rv is None or lv[1] + rv[1] > 15 or lv[1] + rv[1] == 0:
            raise Unsupported("float() of this text")
        num = lv[0] * bv(10 ** rv[1]) + rv[0]
        return z3.fpDiv(RNE, z3.fpSignedToFP(RNE, num, F64), z3.FPVal(float(10 ** rv[1]), F64))
