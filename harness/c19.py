"""C19 easter(): solver obligations over the whole documented domain (engine E2, astbv)."""
import json
import os
import random
import subprocess
import tempfile
import time

import z3

from engine import chx
from engine.astbv import BVBackend, IntBackend, Translator, Unsupported

HERE = os.path.dirname(os.path.abspath(__file__))
ORACLE = os.path.join(HERE, "c19_oracle.py")


def _easter_path():
    return os.path.join(chx.REPO_SRC, "dateutil", "easter.py")


class Enc:
    """One encoding of easter + oracles over a backend, symbolic (y, method)."""

    def __init__(self, backend):
        self.be = backend
        self.y = backend.var("y")
        self.method = backend.var("method")
        date = lambda y, m, d: (y, m, d)
        self.T = Translator(_easter_path(), "easter", backend, calls={"datetime.date": date})
        mark = len(getattr(backend, "ranges", []))
        self.out = self.T.call(self.y, self.method)
        self.impl_ranges = list(getattr(backend, "ranges", []))[mark:]
        self.ry, self.rm, self.rd = self.out.ret

    def oracle(self, name, *args):
        t = Translator(ORACLE, name, self.be)
        o = t.call(*args)
        return o.ret if len(o.ret) > 1 else o.ret[0]

    def c(self, v):
        return self.be.const(v)


def obligations(be_factory):
    """-> list of (name, description, assumptions(list of z3), claim(z3), Enc)"""
    obs = []

    def dom(e, lo, hi, method):
        return [e.be.le(e.c(lo), e.y), e.be.le(e.y, e.c(hi)), e.be.eq(e.method, e.c(method))]

    # O1/O2/O3 western
    e = Enc(be_factory())
    m, d = e.oracle("mjb", e.y)
    normal = z3.And(e.out.returned, z3.Not(e.out.raised), z3.Not(e.out.divzero), z3.Not(e.out.unbound))
    obs.append(("O1-western-equals-MJB", "method 3, 1583..4099: returns normally and (month, day) == Meeus/Jones/Butcher; year unchanged",
                dom(e, 1583, 4099, 3), z3.And(normal, e.rm == m, e.rd == d, e.ry == e.y), e))
    in_window = z3.Or(z3.And(e.rm == e.c(3), e.rd >= e.c(22), e.rd <= e.c(31)),
                      z3.And(e.rm == e.c(4), e.rd >= e.c(1), e.rd <= e.c(25)))
    obs.append(("O2-western-window", "method 3, 1583..4099: between 22 March and 25 April",
                dom(e, 1583, 4099, 3), in_window, e))
    dow = e.oracle("greg_dow", e.ry, e.rm, e.rd)
    obs.append(("O3-western-sunday", "method 3, 1583..4099: the returned Gregorian date is a Sunday (ordinal % 7 == 0)",
                dom(e, 1583, 4099, 3), dow == e.c(0), e))
    rng = list(e.be.ranges) if hasattr(e.be, "ranges") else []
    if rng:
        obs.append(("O7a-no-overflow-western", "method 3 domain: every intermediate of easter() and of the oracles stays inside the half-width range (bit-vector arithmetic is exact)",
                    dom(e, 1583, 4099, 3), z3.And(*rng), e))
    obs.append(("O8a-valid-date-western", "method 3: date() arguments form a valid date",
                dom(e, 1583, 4099, 3), e.oracle("month_len_ok", e.rm, e.rd) == e.c(1), e))

    # O4 julian
    e = Enc(be_factory())
    m, d = e.oracle("meeus_julian", e.y)
    normal = z3.And(e.out.returned, z3.Not(e.out.raised), z3.Not(e.out.divzero), z3.Not(e.out.unbound))
    obs.append(("O4-julian-equals-Meeus", "method 1, 326..9999: returns normally and equals Meeus' Julian algorithm",
                dom(e, 326, 9999, 1), z3.And(normal, e.rm == m, e.rd == d, e.ry == e.y), e))
    obs.append(("O8b-valid-date-julian", "method 1: date() arguments form a valid (March/April) date",
                dom(e, 326, 9999, 1), z3.And(e.oracle("month_len_ok", e.rm, e.rd) == e.c(1), e.rm <= e.c(4)), e))
    rng = list(e.be.ranges) if hasattr(e.be, "ranges") else []
    if rng:
        obs.append(("O7b-no-overflow-julian", "method 1 domain: intermediates in range",
                    dom(e, 326, 9999, 1), z3.And(*rng), e))

    # O5 orthodox
    e = Enc(be_factory())
    jm, jd = e.oracle("meeus_julian", e.y)
    gm, gd = e.oracle("julian_to_gregorian", e.y, jm, jd)
    normal = z3.And(e.out.returned, z3.Not(e.out.raised), z3.Not(e.out.divzero), z3.Not(e.out.unbound))
    obs.append(("O5-orthodox-is-julian-in-gregorian", "method 2, 1583..4099: the Julian Easter date converted to the Gregorian calendar",
                dom(e, 1583, 4099, 2), z3.And(normal, e.rm == gm, e.rd == gd, e.ry == e.y), e))
    dow = e.oracle("greg_dow", e.ry, e.rm, e.rd)
    obs.append(("O5b-orthodox-sunday", "method 2, 1583..4099: a Sunday",
                dom(e, 1583, 4099, 2), dow == e.c(0), e))
    obs.append(("O8c-valid-date-orthodox", "method 2: date() arguments form a valid date",
                dom(e, 1583, 4099, 2), e.oracle("month_len_ok", e.rm, e.rd) == e.c(1), e))
    rng = list(e.be.ranges) if hasattr(e.be, "ranges") else []
    if rng:
        obs.append(("O7c-no-overflow-orthodox", "method 2 domain: intermediates in range",
                    dom(e, 1583, 4099, 2), z3.And(*rng), e))

    # O6 method validation
    e = Enc(be_factory())
    ydom = [e.be.le(e.c(1), e.y), e.be.le(e.y, e.c(9999))]
    bad = z3.Or(e.be.lt(e.method, e.c(1)), e.be.lt(e.c(3), e.method))
    ve = e.out.raise_kind.get("ValueError", z3.BoolVal(False))
    obs.append(("O6a-bad-method-raises", "any integer method outside 1..3 raises ValueError (and nothing else)",
                ydom + [bad], z3.And(ve, z3.Not(e.out.returned)), e))
    obs.append(("O6b-good-method-does-not-raise", "method in 1..3 never raises",
                ydom + [z3.Not(bad)], z3.And(z3.Not(e.out.raised), e.out.returned), e))
    return obs


def native_check(y, method):
    """Replay on the real function: returns None if the property holds at (y, method), else a message."""
    import importlib
    import datetime
    import dateutil.easter as E
    from harness import c19_oracle as O
    try:
        r = E.easter(y, method)
    except ValueError:
        if 1 <= method <= 3:
            return "easter(%d, %d) raised ValueError" % (y, method)
        return None
    except Exception as ex:  # noqa
        return "easter(%d, %d) raised %s" % (y, method, type(ex).__name__)
    if not (1 <= method <= 3):
        return "easter(%d, %d) returned %r for an invalid method" % (y, method, r)
    if method == 3:
        exp = datetime.date(y, *O.mjb(y))
        if r != exp:
            return "easter(%d, 3) = %s, Meeus/Jones/Butcher gives %s" % (y, r, exp)
        if r.weekday() != 6 or not (datetime.date(y, 3, 22) <= r <= datetime.date(y, 4, 25)):
            return "easter(%d, 3) = %s is not a Sunday in 22 Mar..25 Apr" % (y, r)
    elif method == 1:
        exp = (y,) + tuple(O.meeus_julian(y))
        if (r.year, r.month, r.day) != exp:
            return "easter(%d, 1) = %s, Meeus' Julian algorithm gives %s" % (y, r, exp)
    else:
        jm, jd = O.meeus_julian(y)
        exp = datetime.date(y, *O.julian_to_gregorian(y, jm, jd))
        if r != exp or r.weekday() != 6:
            return "easter(%d, 2) = %s, Julian Easter in the Gregorian calendar is %s" % (y, r, exp)
    return None


def _external(smt2, cmd, timeout):
    with tempfile.NamedTemporaryFile("w", suffix=".smt2", delete=False, dir=os.environ.get("TMPDIR", "/tmp")) as f:
        f.write(smt2)
        p = f.name
    try:
        t0 = time.time()
        r = subprocess.run(cmd + [p], capture_output=True, text=True, timeout=timeout)
        out = r.stdout.strip().splitlines()
        if "(error" in r.stdout or "(error" in r.stderr:
            return "error", time.time() - t0
        return (out[0] if out else "none"), time.time() - t0
    except subprocess.TimeoutExpired:
        return "timeout", timeout
    finally:
        os.unlink(p)


def validate_translator(samples):
    """Concrete evaluation of the translated term vs the real function (translator validation)."""
    import dateutil.easter as E
    bad = []
    n = 0
    be = BVBackend(32)
    T = Translator(_easter_path(), "easter", be, calls={"datetime.date": lambda y, m, d: (y, m, d)})
    for (y, method) in samples:
        o = T.call(be.const(y), be.const(method))
        raised = z3.is_true(z3.simplify(o.raised))
        try:
            r = E.easter(y, method)
            exp = (r.year, r.month, r.day)
        except ValueError:
            exp = "ValueError"
        if raised:
            got = "ValueError" if z3.is_true(z3.simplify(o.raise_kind.get("ValueError", z3.BoolVal(False)))) else "raise"
        else:
            got = tuple(z3.simplify(t).as_signed_long() for t in o.ret)
        n += 1
        if got != exp:
            bad.append((y, method, got, exp))
    return n, bad


BACKENDS = {"bv32": lambda: BVBackend(32), "bv64": lambda: BVBackend(64)}


def _solve_one(task):
    bname, idx, tier = task
    name, desc, assume, claim, e = obligations(BACKENDS[bname])[idx]
    s = z3.SolverFor("QF_BV")
    s.set("timeout", 600000)
    for a in assume:
        s.add(a)
    s.add(z3.Not(claim))
    smt2 = "(set-logic QF_BV)\n" + s.to_smt2().replace("(set-info :status unknown)", "")
    t1 = time.time()
    r = str(s.check())
    dt = time.time() - t1
    solver_s = dt
    row = dict(obligation=name, backend=bname, description=desc, z3_wheel=r, z3_wheel_s=round(dt, 2))
    status = "unknown"
    if r == "unsat":
        r2, d2 = _external(smt2, ["/usr/bin/z3", "-T:300"], 320)
        row["z3_4_8_12"], row["z3_4_8_12_s"] = r2, round(d2, 2)
        solver_s += d2
        r3 = None
        if tier == "thorough" and bname == "bv32":
            r3, d3 = _external(smt2, ["cvc5", "--tlimit=300000"], 320)
            row["cvc5"], row["cvc5_s"] = r3, round(d3, 2)
            solver_s += d3
        if r2 == "sat" or r3 == "sat":
            status = "disagree"
        else:
            status = "discharged"
            if r2 != "unsat":
                row["note"] = "second solver inconclusive (%s); z3 wheel verdict stands" % r2
    elif r == "sat":
        mdl = s.model()
        row["counterexample"] = dict(year=e.be.value(mdl, e.y), method=e.be.value(mdl, e.method))
        status = "sat"
    else:
        row["note"] = "inconclusive: " + s.reason_unknown()
    return dict(row=row, status=status, solver_s=solver_s)


def run(tier, seed, jobs):
    t0 = time.time()
    rnd = random.Random(seed)
    errors, violations, rows = [], [], []
    # -- translator validation on the repo's own test vectors + seeded years
    samples = [(y, m) for y in range(1990, 2051) for m in (2, 3)] + [(y, 1) for y in (326, 375, 492, 552, 562, 569, 597, 621, 636, 655, 700, 725, 750, 782, 835, 849, 867, 890, 922, 934, 1049, 1058, 1113, 1119, 1242, 1255, 1262, 1286, 1375, 1400, 1407, 1444, 1573, 1583, 9999)]
    samples += [(rnd.randint(1583, 4099), rnd.choice((2, 3))) for _ in range(120)]
    samples += [(rnd.randint(326, 9999), 1) for _ in range(60)]
    samples += [(rnd.randint(1, 9999), rnd.choice((0, 4, -1, 17))) for _ in range(20)]
    hviol, hcalls = history_check(seed)
    if hviol:
        # a call history already breaks the property on the real function: report it whatever the translator says
        violations.extend(hviol)
    try:
        nval, bad = validate_translator(samples)
    except Unsupported as ex:
        return dict(level="proof", violations=violations, errors=[dict(kind="unsupported-ast", msg=str(ex))],
                    coverage=dict(obligations=1, discharged=0, checker_cmd="./check C19", trusted_base=[]),
                    summary="translator rejected easter.py: %s" % ex)
    for b in bad[:5]:
        errors.append(dict(kind="translator-validation", sample=list(map(str, b))))

    backends = [("bv32", BACKENDS["bv32"])]
    if tier == "thorough":
        backends.append(("bv64", BACKENDS["bv64"]))
    discharged = total = 0
    solver_s = 0.0
    seen_cex = set()
    tasks = []
    for bname, _fac in backends:
        try:
            n = len(obligations(_fac))
        except Unsupported as ex:
            errors.append(dict(kind="unsupported-ast", msg=str(ex)))
            break
        tasks += [(bname, i, tier) for i in range(n)]
    import multiprocessing as mp
    with mp.get_context("fork").Pool(min(jobs, max(1, len(tasks)))) as pool:
        outs = pool.map(_solve_one, tasks, chunksize=1)
    for o in outs:
        total += 1
        solver_s += o["solver_s"]
        row = o["row"]
        rows.append(row)
        name = row["obligation"]
        if o["status"] == "discharged":
            discharged += 1
        elif o["status"] == "disagree":
            errors.append(dict(kind="solver-disagreement", obligation=name, results=row))
        elif o["status"] == "unknown":
            errors.append(dict(kind="solver-unknown", obligation=name, reason=row.get("note")))
        else:
            y, method = row["counterexample"]["year"], row["counterexample"]["method"]
            msg = native_check(y, method)
            if msg is None and name.startswith("O7"):
                errors.append(dict(kind="range-obligation-failed", obligation=name, year=y, method=method,
                                   msg="an intermediate leaves the exact range; encoding would be unsound"))
            elif msg is None:
                errors.append(dict(kind="non-reproducing-counterexample", obligation=name, year=y, method=method))
            elif (y, method) not in seen_cex:
                seen_cex.add((y, method))
                violations.append(dict(key="easter(%d,%d)" % (y, method), msg="%s [%s]" % (msg, name),
                                       replay=dict(year=y, method=method, obligation=name)))

    cov = dict(obligations=total, discharged=discharged,
               checker_cmd="./check C19 --tier %s  (z3-solver 5.1 python API; /usr/bin/z3 4.8.12%s on the exported SMT-LIB2)" % (
                   tier, " and cvc5 1.0.3" if tier == "thorough" else ""),
               trusted_base=["z3 (two versions) / cvc5", "engine/astbv.py translator (validated this run on %d concrete inputs against the real function: %d mismatches)" % (nval, len(bad)),
                             "harness/c19_oracle.py reference algorithms (Meeus/Jones/Butcher, Meeus Julian, Gregorian ordinal, Julian->Gregorian day shift)"],
               samples=rows[:4], exhaustive=(discharged == total and not errors),
               evaluations=total, distinct_nontrivial=discharged,
               rule="one evaluation = one unsat query on a negated obligation over the whole documented year range")
    extra = dict(functions_encoded=["dateutil/easter.py:easter"], source_sha256=chx.source_hashes({"dateutil/easter.py"}),
                 bounds=dict(western="1583..4099", orthodox="1583..4099", julian="326..9999", method_bad="any 32-bit half-range integer (|method| < 32768) and years 1..9999"),
                 outside_bounds=["years outside the documented ranges", "non-int arguments"],
                 obligations_detail=rows, queries=total, solver_s=round(solver_s, 2), translator_validation_samples=nval)
    return dict(level="proof", violations=violations, errors=errors, coverage=cov,
                assumptions=["Python int arithmetic == exact integer arithmetic; the bit-vector encoding is exact because every intermediate is proved to stay within the half-width range (O7*)",
                             "datetime.date(y, m, d) succeeds iff (m, d) is a valid date (O8*) and returns that date",
                             "the obligations speak about one call of a function without module state; that the value does not depend on earlier calls is "
                             "checked natively on %d calls (50 years x every order of the three methods + a repeat) against the reference algorithms" % hcalls],
                extra=extra, summary="obligations=%d discharged=%d solver=%.1fs" % (total, discharged, solver_s))


def history_check(seed):
    """Call histories on the real function (native): the value for (year, method) does not depend on which calls came
    before - the same year asked with the other methods first, in every order, and a repeated call.  The SMT obligations
    speak about one call from a clean state; a result memo or any other module state would be outside them."""
    rnd = random.Random(seed)
    years = sorted(set([1583, 1598, 1700, 1900, 1973, 2000, 2024, 2100, 2410, 4099] + [rnd.randint(1583, 4099) for _ in range(40)]))
    out = []
    import itertools
    for y in years:
        for order in itertools.permutations((1, 2, 3)):
            hist = []
            for m in order + (order[0],):
                msg = native_check(y, m)
                if msg:
                    out.append(dict(key="history:easter(%d,%d)" % (y, m), msg="%s after the calls %s" % (msg, hist),
                                    replay=dict(year=y, method=m, history=list(hist))))
                    break
                hist.append([y, m])
            if out and out[-1]["replay"]["year"] == y:
                break
        if len(out) >= 5:
            break
    return out, len(years) * 6 * 4


def replay(rec):
    for (hy, hm) in rec.get("history", []):
        native_check(hy, hm)
    msg = native_check(rec["year"], rec["method"])
    if msg:
        return chx.Violation(msg)
    return None
