"""C17 iCalendar VTIMEZONE zones agree with the same rules given as a TZ string / tzrange (and with POSIX)."""
import datetime
import io

from engine import chx, report, tsdt
from engine import sym as S
from engine.chx import Cell
from harness import posixtz as P
from harness import c08

M = "harness.c08"
MF = "harness.c17"
EPOCH_ORD = datetime.date(1970, 1, 1).toordinal()
BYDAY = ("SU", "MO", "TU", "WE", "TH", "FR", "SA")


def _off(secs):
    sign = "-" if secs < 0 else "+"
    v = abs(secs)
    h, rem = divmod(v, 3600)
    m, s = divmod(rem, 60)
    return "%s%02d%02d%s" % (sign, h, m, ("%02d" % s) if s else "")


def _onset_local(rule, year):
    o = P._rule_day_ordinal(rule, year)
    d = datetime.date.fromordinal(o)
    return datetime.datetime(d.year, d.month, d.day) + datetime.timedelta(seconds=P.rule_time(rule))


def vtimezone(spec, variant="rrule", tzid="Test/Zone", first_year=1970, rdate_years=12):
    std, dst = spec["stdoff"], P.dstoff(spec)

    def comp(kind, rule, off_from, off_to, name):
        dt0 = _onset_local(rule, first_year)
        lines = ["BEGIN:%s" % kind, "DTSTART:%s" % dt0.strftime("%Y%m%dT%H%M%S")]
        if variant in ("rrule", "swapped", "folded", "lower", "relabel"):
            _, m, w, d = rule[:4]
            n = -1 if w == 5 else w
            lines.append("RRULE:FREQ=YEARLY;BYMONTH=%d;BYDAY=%+d%s" % (m, n, BYDAY[d]))
        else:
            for y in range(first_year + 1, first_year + rdate_years):
                lines.append("RDATE:%s" % _onset_local(rule, y).strftime("%Y%m%dT%H%M%S"))
        lines += ["TZOFFSETFROM:%s" % _off(off_from), "TZOFFSETTO:%s" % _off(off_to), "TZNAME:%s" % name, "END:%s" % kind]
        return lines
    sc = comp("STANDARD", spec["end"], dst, std, spec["std"])
    dc = comp("DAYLIGHT", spec["start"], std, dst, spec["dst"])
    if variant == "relabel":      # negative saving: the block that sets clocks BACK is the one labelled DAYLIGHT
        sc = comp("DAYLIGHT", spec["end"], dst, std, spec["std"])
        dc = comp("STANDARD", spec["start"], std, dst, spec["dst"])
    body = (dc + sc) if variant == "swapped" else (sc + dc)
    lines = ["BEGIN:VTIMEZONE", "TZID:%s" % tzid] + body + ["END:VTIMEZONE"]
    if variant == "folded":
        out = []
        for ln in lines:
            if len(ln) > 12:
                out.append(ln[:9])
                out.append(" " + ln[9:])
            else:
                out.append(ln)
        lines = out
    return "\r\n".join(lines) + "\r\n"


def build_zone(kind, spec):
    from dateutil import tz
    variant = kind.split(":", 1)[1]
    if variant == "two":
        other = dict(spec, std="OTH", dst="OTD", stdoff=spec["stdoff"] + 3600,
                     dstoff=(P.dstoff(spec) + 3600))
        text = vtimezone(other, "rrule", tzid="Other/Zone") + vtimezone(spec, "rrule")
        ic = tz.tzical(io.StringIO(text))
        assert sorted(ic.keys()) == ["Other/Zone", "Test/Zone"]
        return ic.get("Test/Zone")
    if variant == "rdate-short":
        # few explicit onsets: the component's rule set is exhausted (its cache complete) after any one query
        return tz.tzical(io.StringIO(vtimezone(spec, "rdate", rdate_years=6))).get()
    text = vtimezone(spec, variant)
    return tz.tzical(io.StringIO(text)).get()


def h_relabel(spec, year):
    """Offset and abbreviation at a wall time (fold 0 and 1) are fixed by the onsets and TZOFFSETTO / TZNAME values; which
    block carries the label DAYLIGHT (negative-saving definitions, Irish style) must not change them.  The conventional
    labelling is the one tied to POSIX by the h_rule cells; dst() and fromutc are not compared (outside)."""
    za = build_zone("tzical:rrule", spec)
    zb = build_zone("tzical:relabel", spec)
    y0 = (datetime.date(year, 1, 1).toordinal() - EPOCH_ORD) * 86400
    lo, hi = y0 - 3 * 86400, y0 + 369 * 86400
    types = dict(t=int)

    def fn(ctx, t):
        ctx.assume(S.within(t, lo, hi))
        for z in (za, zb):
            del z._cachedate[:]
            del z._cachecomp[:]
        for fold in (0, 1):
            a = tsdt.mk(ctx, t, za, fold, year_hint=year)
            b = tsdt.mk(ctx, t, zb, fold, year_hint=year)
            tag = "relabel|%s|%d|fold%d" % (P.render(spec), year, fold)
            ctx.check(S.eq(tsdt.secs(a.utcoffset()), tsdt.secs(b.utcoffset())), "offset at a wall time depends on which block is labelled DAYLIGHT", key=tag + "|offset")
            ctx.check(a.tzname() == b.tzname(), "abbreviation at a wall time depends on which block is labelled DAYLIGHT", key=tag + "|abbr")
        return None
    return fn, types


def h_malformed():
    """Structurally malformed definitions raise ValueError (structure is concrete: which defect is the symbolic choice)."""
    from dateutil import tz
    good = vtimezone(c08.specs("quick")[0])
    bad = {
        "no-tzid": good.replace("TZID:Test/Zone\r\n", ""),
        "no-dtstart": good.replace("DTSTART:19701101T020000\r\n", "", 1),
        "no-offsetfrom": good.replace("TZOFFSETFROM:-0400\r\n", "", 1),
        "no-offsetto": good.replace("TZOFFSETTO:-0500\r\n", "", 1),
        "unknown-component": good.replace("BEGIN:STANDARD", "BEGIN:WEIRD", 1).replace("END:STANDARD", "END:WEIRD", 1),
        "unknown-property": good.replace("TZNAME:EST", "FOO:EST"),
        "no-components": "BEGIN:VTIMEZONE\r\nTZID:X\r\nEND:VTIMEZONE\r\n",
        "second-zone-no-tzid": good + good.replace("TZID:Test/Zone\r\n", ""),
        "third-zone-no-tzid": good + good.replace("Test/Zone", "Other") + good.replace("TZID:Test/Zone\r\n", ""),
    }
    names = sorted(bad)
    types = dict(i=int)

    def fn(ctx, i):
        ctx.assume(S.within(i, 0, len(names) - 1))
        nm = names[ctx.concrete(i)]
        if ctx.symbolic:
            return None          # all inputs are pinned: the check itself runs in the native replay of this path's witness
        with ctx.untraced():
            try:
                tz.tzical(io.StringIO(bad[nm])).get()
            except ValueError:
                return None
            except Exception as e:
                ctx.fail("malformed VTIMEZONE (%s) raised %s instead of ValueError" % (nm, type(e).__name__), key="malformed-%s-%s" % (nm, type(e).__name__))
            ctx.fail("malformed VTIMEZONE (%s) accepted" % nm, key="malformed-%s-accepted" % nm)
    return fn, types


def h_first_standard():
    """A definition with TWO STANDARD components (an older one and the one the yearly rules belong to) and one DAYLIGHT
    component, in all six component orders: before the earliest onset the first STANDARD component of the definition
    applies; from the later standard onset on the zone equals the TZ string stating the same rules.  Order and probe are
    pinned per path; native."""
    import datetime
    import itertools
    from dateutil import tz
    types = dict(o=int, p=int)
    S_OLD = ["BEGIN:STANDARD", "DTSTART:19800101T000000", "TZOFFSETFROM:-0600", "TZOFFSETTO:-0600", "TZNAME:CST", "END:STANDARD"]
    S_NEW = ["BEGIN:STANDARD", "DTSTART:19901028T020000", "RRULE:FREQ=YEARLY;BYMONTH=10;BYDAY=-1SU", "TZOFFSETFROM:-0400", "TZOFFSETTO:-0500", "TZNAME:EST", "END:STANDARD"]
    DAY = ["BEGIN:DAYLIGHT", "DTSTART:19900401T020000", "RRULE:FREQ=YEARLY;BYMONTH=4;BYDAY=1SU", "TZOFFSETFROM:-0500", "TZOFFSETTO:-0400", "TZNAME:EDT", "END:DAYLIGHT"]
    blocks = dict(o=S_OLD, n=S_NEW, d=DAY)
    orders = list(itertools.permutations("ond"))
    ref = tz.tzstr("EST5EDT,M4.1.0,M10.5.0")
    probes = [datetime.datetime(1979, 12, 31, 23, 59, 59), datetime.datetime(1975, 6, 1, 12), datetime.datetime(1991, 1, 15, 12), datetime.datetime(1991, 7, 15, 12),
              datetime.datetime(1993, 4, 4, 1, 59, 59), datetime.datetime(1993, 4, 4, 3, 0), datetime.datetime(1995, 10, 29, 0, 30), datetime.datetime(1995, 10, 29, 3, 0)]

    def fn(ctx, o, p):
        ctx.assume(S.within(o, 0, len(orders) - 1))
        ctx.assume(S.within(p, 0, len(probes) - 1))
        o, p = ctx.concrete(o), ctx.concrete(p)
        if ctx.symbolic:
            return None
        with ctx.untraced():
            order = orders[o]
            lines = ["BEGIN:VTIMEZONE", "TZID:Two/Standards"] + sum([blocks[k] for k in order], []) + ["END:VTIMEZONE"]
            z = tz.tzical(io.StringIO("\r\n".join(lines) + "\r\n")).get()
            d = probes[p].replace(tzinfo=z)
            key = "first-standard:%s" % "".join(order)
            if probes[p].year < 1980:
                first = [k for k in order if k != "d"][0]
                want = (datetime.timedelta(hours=-6), "CST") if first == "o" else (datetime.timedelta(hours=-5), "EST")
                ctx.check((d.utcoffset(), d.tzname()) == want and not d.dst(),
                          "before the earliest onset (order %s) the zone reports %r, the first STANDARD component says %r" % ("".join(order), (d.utcoffset(), d.tzname()), want), key=key + ":before")
            else:
                r = probes[p].replace(tzinfo=ref)
                ctx.check((d.utcoffset(), d.tzname(), d.dst()) == (r.utcoffset(), r.tzname(), r.dst()),
                          "from the rules' onsets on (order %s) the zone reports %r at %s, the TZ string %r" % ("".join(order), (d.utcoffset(), d.tzname()), probes[p], (r.utcoffset(), r.tzname())),
                          key=key + ":after")
        return None
    return fn, types


def h_get():
    from dateutil import tz
    spec = c08.specs("quick")[0]
    types = dict(i=int)

    def fn(ctx, i):
        ctx.assume(S.within(i, 0, 3))
        i = ctx.concrete(i)
        if ctx.symbolic:
            return None          # all inputs are pinned: the check itself runs in the native replay of this path's witness
        with ctx.untraced():
            one = tz.tzical(io.StringIO(vtimezone(spec)))
            two = tz.tzical(io.StringIO(vtimezone(spec, tzid="A") + vtimezone(spec, tzid="B")))
            if i == 0:
                ctx.check(one.get() is one.get("Test/Zone"), "single zone not returned without naming it", key="get-single")
            elif i == 1:
                ctx.check(two.get("A") is not None and two.get("B") is not None and two.get("A") is not two.get("B"), "zones not addressable by TZID", key="get-tzid")
            elif i == 2:
                try:
                    two.get()
                    ctx.fail("get() without TZID on a two-zone definition did not raise", key="get-ambiguous")
                except ValueError:
                    pass
            else:
                ctx.check(sorted(two.keys()) == ["A", "B"], "keys() wrong", key="keys")
        return None
    return fn, types


def h_fold(order):
    """RFC 5545 line folding at EVERY position of EVERY content line (CRLF + one blank inserted; unfolding removes exactly
    that one blank): names with inner blanks (TZID, TZNAME) and all values must come back unchanged.  Line index and
    fold column are pinned per path; the zone is compared with the one parsed from the unfolded text."""
    import datetime
    from dateutil import tz
    spec = dict(c08.specs("quick")[0], std="Eastern Standard Time", dst="Eastern Daylight Time")
    tzid = "Test/Eastern Time (US)"
    text = vtimezone(spec, "swapped" if order else "rrule", tzid=tzid)
    lines = text.split("\r\n")[:-1]
    types = dict(li=int, col=int, allcol=bool)
    maxlen = max(len(ln) for ln in lines)
    probes = [datetime.datetime(1972, 1, 15, 12), datetime.datetime(1972, 7, 15, 12), datetime.datetime(1975, 11, 1, 12)]

    def fn(ctx, li, col, allcol):
        ctx.assume(S.within(li, 0, len(lines) - 1))
        ctx.assume(S.within(col, 1, maxlen - 1))
        li, col, allcol = ctx.concrete(li), ctx.concrete(col), ctx.concrete(allcol)
        if not allcol and col >= len(lines[li]):
            ctx.assume(False)
        if allcol and li != 0:
            ctx.assume(False)
        if ctx.symbolic:
            return None
        with ctx.untraced():
            out = []
            for j, ln in enumerate(lines):
                if (allcol or j == li) and col < len(ln):
                    out += [ln[:col], " " + ln[col:]]
                else:
                    out.append(ln)
            folded = "\r\n".join(out) + "\r\n"
            key = "fold:%s" % ("all" if allcol else lines[li].split(":")[0].split(";")[0])
            try:
                ic = tz.tzical(io.StringIO(folded))
            except Exception as e:
                ctx.fail("folded definition (line %d, column %d) raised %s: %s" % (li, col, type(e).__name__, str(e)[:60]), key=key + ":raises")
            ctx.check(ic.keys() == [tzid], "TZID after unfolding is %r, expected %r (fold at line %d column %d)" % (ic.keys(), tzid, li, col), key=key + ":tzid")
            z = ic.get()
            ref = tz.tzical(io.StringIO(text)).get()
            for p in probes:
                a, b = p.replace(tzinfo=z), p.replace(tzinfo=ref)
                ctx.check((a.utcoffset(), a.dst(), a.tzname()) == (b.utcoffset(), b.dst(), b.tzname()),
                          "folded definition answers %r, the unfolded one %r (fold at line %d column %d)" % ((a.utcoffset(), a.tzname()), (b.utcoffset(), b.tzname()), li, col),
                          key=key + ":answers")
            ctx.check(ref.tzname(probes[0]) == spec["std"] and ref.tzname(probes[1]) == spec["dst"], "TZNAME with blanks not preserved", key="fold:names")
        return None
    return fn, types


def cells(tier):
    q = tier == "quick"
    cs = [Cell(MF, "h_malformed", {}, budget_s=60), Cell(MF, "h_get", {}, budget_s=60),
          Cell(MF, "h_fold", dict(order=0), budget_s=150), Cell(MF, "h_fold", dict(order=1), budget_s=150),
          Cell(MF, "h_first_standard", {}, budget_s=60)]
    sp = [s for s in c08.specs(tier) if s.get("dst") and s["start"][0] == "M" and s["end"][0] == "M"
          and P.rule_time(s["start"]) < 86400 and P.rule_time(s["end"]) < 86400]      # 24:00 is not a BYDAY onset on the same weekday
    # the rule forms that expose the known tzstr defects are legitimate VTIMEZONE rules too (onsets are listed explicitly)
    years = (1972, 1975) if q else (1971, 1972, 1973, 1974, 1975, 1976)
    variants = ("rrule", "rdate", "rdate-short", "swapped") if q else ("rrule", "rdate", "rdate-short", "swapped", "folded", "two")
    for spec in (sp[:3] + [x for x in sp[3:] if x.get("no_tzstr")] if q else sp):
        for v in variants:
            ys = list(years)
            northern = P._rule_day_ordinal(spec["start"], 1971) < P._rule_day_ordinal(spec["end"], 1971)
            if v == "rdate-short":
                ys = [1972, 1974]
            if northern and v in ("rdate", "rrule"):
                ys = [1970] + ys          # the year of the first onsets (before them the first STANDARD component applies, as POSIX standard time)
            for y in ys:
                for wm in (False, True):
                    cs.append(Cell(M, "h_rule", dict(kind="tzical:" + v, spec=spec, year=y, wallmode=wm),
                                   name="tzical:%s[%s]@%d%s" % (v, P.render(spec), y, "/wall" if wm else "/utc"),
                                   budget_s=150 if q else 600, per_path_s=30, max_violations=100))
    for spec in sp[:3]:
        for y in ((1972,) if q else (1972, 1975)):
            cs.append(Cell(MF, "h_relabel", dict(spec=spec, year=y), name="relabel[%s]@%d" % (P.render(spec), y), budget_s=150 if q else 600, per_path_s=30, max_violations=20))
    return cs


ASSUMPTIONS = [
    "VTIMEZONE text is generated per cell from the structured rule spec (RRULE FREQ=YEARLY;BYMONTH;BYDAY resp. RDATE lists; component order swapped; folded lines; two zones per stream) "
    "and parsed by the real tzical; the instant (UTC resp. naive wall, whole seconds, over a year within 6 years after the first onset in 1970) is the solver variable",
    "the expected answers come from the independent POSIX reference (harness/posixtz.py), the same one that C08 ties tzstr/tzrange to",
    "the zone's ten-entry lookup cache is emptied at the start of every path (it would otherwise hold values of another solver context); "
    "within a path the harness queries several instants on the same object, so cache hits and misses both occur",
    "datetimes are timestamp-backed stand-ins (engine/tsdt.py)",
    "folding cells: one definition whose TZID and TZNAMEs contain blanks, folded at every column of every line (and all lines at a common column), pinned per path, parsed natively and compared with the unfolded text's zone at three instants",
]
OUTSIDE = ["J / n rule forms (not expressible as yearly BYDAY rules)", "instants before the first onset", "definitions with only DAYLIGHT components",
           "definitions with negative daylight saving (the DAYLIGHT component sets clocks back): only offset and abbreviation at wall times (relabel cells), not dst() / fromutc"]


def run(tier, seed, jobs):
    cs = report.filter_cells(cells(tier))
    res = chx.run_cells(cs, jobs)
    return report.aggregate("C17", res, assumptions=ASSUMPTIONS, bounds=dict(cells=len(cs)), outside=OUTSIDE, stubs=["TsDT"])
