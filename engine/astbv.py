"""E2 `astbv` -- AST -> SMT translation of straight-line integer kernels.

The function's source is re-parsed from the repository on every run.  Supported subset:
assignments (incl. augmented and tuple targets of equal length), if/elif/else, raise, return,
+ - * // % on ints, unary -, comparisons (chained), and/or/not, int(x), calls listed in `calls`.
Anything else raises Unsupported (the check exits with the engine-error code instead of
mis-encoding).  Control flow is merged with if-then-else terms: one formula, no path forking.

Two arithmetic back ends:
  IntBackend : z3 Int (Python semantics directly; z3's div/mod are Euclidean -> floor fix-up)
  BVBackend  : W-bit bit-vectors with Python floor division/modulo; every intermediate is
               required to lie in [-2**(W/2-1), 2**(W/2-1)) by a side obligation collected in
               `ranges`, which makes W-bit +,-,* exact (no wrap) by induction on evaluation order.
"""
import ast
import textwrap

import z3


class Unsupported(Exception):
    pass


class IntBackend:
    name = "int"

    def const(self, v):
        return z3.IntVal(v)

    def var(self, name):
        return z3.Int(name)

    def note(self, t):
        return t

    def add(self, a, b):
        return a + b

    def sub(self, a, b):
        return a - b

    def mul(self, a, b):
        return a * b

    def neg(self, a):
        return -a

    def floordiv(self, a, b):
        # z3 Int div: a = b*q + r, 0 <= r < |b|.  Python floor: sign of remainder follows b.
        q, r = a / b, a % b
        return z3.If(z3.And(b < 0, r != 0), q + 1, q)

    def mod(self, a, b):
        r = a % b
        return z3.If(z3.And(b < 0, r != 0), r + b, r)

    def lt(self, a, b):
        return a < b

    def le(self, a, b):
        return a <= b

    def eq(self, a, b):
        return a == b

    def value(self, model, t):
        return model.eval(t, model_completion=True).as_long()


class BVBackend:
    name = "bv"

    def __init__(self, width=32):
        self.w = width
        self.ranges = []       # side obligations: each must be valid
        self.half = 1 << (width // 2 - 1)

    def const(self, v):
        return z3.BitVecVal(v, self.w)

    def var(self, name):
        v = z3.BitVec(name, self.w)
        return v

    def note(self, t):
        self.ranges.append(z3.And(t >= -self.half, t < self.half))
        return t

    def add(self, a, b):
        return self.note(a + b)

    def sub(self, a, b):
        return self.note(a - b)

    def mul(self, a, b):
        return self.note(a * b)

    def neg(self, a):
        return self.note(-a)

    def floordiv(self, a, b):
        q = a / b                  # signed, truncating (bvsdiv)
        r = z3.SRem(a, b)
        return self.note(z3.If(z3.And(r != 0, (r < 0) != (b < 0)), q - 1, q))

    def mod(self, a, b):
        r = z3.SRem(a, b)
        return self.note(z3.If(z3.And(r != 0, (r < 0) != (b < 0)), r + b, r))

    def lt(self, a, b):
        return a < b

    def le(self, a, b):
        return a <= b

    def eq(self, a, b):
        return a == b

    def value(self, model, t):
        return model.eval(t, model_completion=True).as_signed_long()


class Outcome:
    """Result of translating one call: guarded return value / raise."""

    def __init__(self):
        self.ret = None            # tuple of terms (or single term) merged over paths
        self.returned = z3.BoolVal(False)
        self.raised = z3.BoolVal(False)
        self.raise_kind = {}       # exception name -> condition
        self.divzero = z3.BoolVal(False)
        self.unbound = z3.BoolVal(False)


class Translator:
    def __init__(self, path, funcname, backend, calls=None, consts=None):
        self.be = backend
        self.calls = calls or {}
        src = open(path, encoding="utf-8").read()
        mod = ast.parse(src)
        self.consts = dict(consts or {})
        self.tables = {}
        self.fn = None
        for node in mod.body:
            if isinstance(node, ast.Assign) and len(node.targets) == 1 and isinstance(node.targets[0], ast.Name) \
                    and isinstance(node.value, ast.Constant) and isinstance(node.value.value, int):
                self.consts[node.targets[0].id] = node.value.value
            if isinstance(node, ast.Assign) and len(node.targets) == 1 and isinstance(node.targets[0], ast.Name) \
                    and isinstance(node.value, (ast.Tuple, ast.List)) and node.value.elts \
                    and all(isinstance(e, ast.Constant) and type(e.value) is int for e in node.value.elts):
                self.tables[node.targets[0].id] = [e.value for e in node.value.elts]      # module-level lookup table of ints
            if isinstance(node, ast.FunctionDef) and node.name == funcname:
                self.fn = node
        if self.fn is None:
            raise Unsupported("function %s not found in %s" % (funcname, path))
        self.source = ast.get_source_segment(src, self.fn)

    # -- expressions
    def expr(self, node, env):
        be = self.be
        if isinstance(node, ast.Constant):
            if isinstance(node.value, bool):
                return z3.BoolVal(node.value)
            if isinstance(node.value, int):
                return be.const(node.value)
            raise Unsupported("constant %r" % (node.value,))
        if isinstance(node, ast.Name):
            if node.id in env:
                ub = env.get("$ub$" + node.id)
                if ub is not None:
                    self.out.unbound = z3.Or(self.out.unbound, z3.And(self.live, ub))
                return env[node.id]
            if node.id in self.consts:
                return be.const(self.consts[node.id])
            raise Unsupported("unknown name %s" % node.id)
        if isinstance(node, ast.UnaryOp):
            if isinstance(node.op, ast.USub):
                return be.neg(self.int_(self.expr(node.operand, env)))
            if isinstance(node.op, ast.UAdd):
                return self.int_(self.expr(node.operand, env))
            if isinstance(node.op, ast.Not):
                return z3.Not(self.bool_(self.expr(node.operand, env)))
            raise Unsupported("unary %s" % type(node.op).__name__)
        if isinstance(node, ast.BinOp):
            a = self.int_(self.expr(node.left, env))
            b = self.int_(self.expr(node.right, env))
            op = node.op
            if isinstance(op, ast.Add):
                return be.add(a, b)
            if isinstance(op, ast.Sub):
                return be.sub(a, b)
            if isinstance(op, ast.Mult):
                return be.mul(a, b)
            if isinstance(op, (ast.FloorDiv, ast.Mod)):
                self.out.divzero = z3.Or(self.out.divzero, z3.And(self.live, be.eq(b, be.const(0))))
                return be.floordiv(a, b) if isinstance(op, ast.FloorDiv) else be.mod(a, b)
            raise Unsupported("binary %s" % type(op).__name__)
        if isinstance(node, ast.Compare):
            left = self.int_(self.expr(node.left, env))
            conj = []
            for op, rn in zip(node.ops, node.comparators):
                right = self.int_(self.expr(rn, env))
                if isinstance(op, ast.Lt):
                    c = be.lt(left, right)
                elif isinstance(op, ast.LtE):
                    c = be.le(left, right)
                elif isinstance(op, ast.Gt):
                    c = be.lt(right, left)
                elif isinstance(op, ast.GtE):
                    c = be.le(right, left)
                elif isinstance(op, ast.Eq):
                    c = be.eq(left, right)
                elif isinstance(op, ast.NotEq):
                    c = z3.Not(be.eq(left, right))
                else:
                    raise Unsupported("compare %s" % type(op).__name__)
                conj.append(c)
                left = right
            return z3.And(*conj) if len(conj) > 1 else conj[0]
        if isinstance(node, ast.BoolOp):
            vals = [self.bool_(self.expr(v, env)) for v in node.values]
            return z3.And(*vals) if isinstance(node.op, ast.And) else z3.Or(*vals)
        if isinstance(node, ast.IfExp):
            c = self.bool_(self.expr(node.test, env))
            return z3.If(c, self.int_(self.expr(node.body, env)), self.int_(self.expr(node.orelse, env)))
        if isinstance(node, ast.Call):
            name = ast.unparse(node.func)
            if name == "int" and len(node.args) == 1 and not node.keywords:
                return self.int_(self.expr(node.args[0], env))
            if name in self.calls and not node.keywords:
                return self.calls[name](*[self.int_(self.expr(a, env)) for a in node.args])
            raise Unsupported("call %s" % name)
        if isinstance(node, ast.Tuple):
            return tuple(self.expr(e, env) for e in node.elts)
        if isinstance(node, ast.Subscript) and isinstance(node.value, ast.Name) and node.value.id in self.tables \
                and node.value.id not in env and not isinstance(node.slice, ast.Slice):
            # constant table indexed by a term: an if-then-else chain over the valid indices (Python's negative indices
            # included); an index outside -n..n-1 is an IndexError, tracked with the other run-time-error obligations
            tab = self.tables[node.value.id]
            n = len(tab)
            idx = self.int_(self.expr(node.slice, env))
            oob = z3.Or(be.lt(idx, be.const(-n)), be.le(be.const(n), idx))
            self.out.divzero = z3.Or(self.out.divzero, z3.And(self.live, oob))
            term = be.const(tab[0])
            for k in range(-n, n):
                term = z3.If(be.eq(idx, be.const(k)), be.const(tab[k]), term)
            return term
        raise Unsupported("expression %s" % type(node).__name__)

    def int_(self, v):
        if isinstance(v, tuple) or z3.is_bool(v):
            raise Unsupported("integer expected")
        return v

    def bool_(self, v):
        if isinstance(v, tuple):
            raise Unsupported("bool expected")
        if z3.is_bool(v):
            return v
        return z3.Not(self.be.eq(v, self.be.const(0)))      # truthiness of an int

    # -- statements; `self.live` = condition under which control reaches the statement
    def block(self, stmts, env):
        for st in stmts:
            env = self.stmt(st, env)
        return env

    def stmt(self, st, env):
        if isinstance(st, ast.Expr) and isinstance(st.value, ast.Constant):
            return env        # docstring
        if isinstance(st, ast.Pass):
            return env
        if isinstance(st, ast.Assign):
            if len(st.targets) != 1:
                raise Unsupported("chained assignment")
            tgt = st.targets[0]
            val = self.expr(st.value, env)
            env = dict(env)
            if isinstance(tgt, ast.Name):
                env[tgt.id] = val
                env.pop("$ub$" + tgt.id, None)
            elif isinstance(tgt, ast.Tuple) and isinstance(val, tuple) and len(val) == len(tgt.elts) \
                    and all(isinstance(e, ast.Name) for e in tgt.elts):
                for e, v in zip(tgt.elts, val):
                    env[e.id] = v
                    env.pop("$ub$" + e.id, None)
            else:
                raise Unsupported("assignment target")
            return env
        if isinstance(st, ast.AugAssign):
            if not isinstance(st.target, ast.Name):
                raise Unsupported("augmented target")
            fake = ast.BinOp(left=ast.Name(id=st.target.id, ctx=ast.Load()), op=st.op, right=st.value)
            env = dict(env)
            env[st.target.id] = self.expr(fake, env)
            env.pop("$ub$" + st.target.id, None)
            return env
        if isinstance(st, ast.If):
            c = self.bool_(self.expr(st.test, env))
            live = self.live
            self.live = z3.And(live, c)
            e1 = self.block(st.body, env)
            l1 = self.live
            self.live = z3.And(live, z3.Not(c))
            e2 = self.block(st.orelse, env)
            l2 = self.live
            self.live = z3.Or(l1, l2)
            merged = {}
            names = {k for k in set(e1) | set(e2) if not k.startswith("$ub$")}
            for k in names:
                a, b = e1.get(k), e2.get(k)
                ua = e1.get("$ub$" + k, z3.BoolVal(False)) if a is not None else z3.BoolVal(True)
                ub = e2.get("$ub$" + k, z3.BoolVal(False)) if b is not None else z3.BoolVal(True)
                if not (z3.is_false(ua) and z3.is_false(ub)):
                    # bound on one side only: reading it where it is unbound is an UnboundLocalError,
                    # tracked as the `unbound` obligation of the outcome
                    merged["$ub$" + k] = z3.If(c, ua, ub)
                if a is None or b is None:
                    merged[k] = a if b is None else b
                elif a is b:
                    merged[k] = a
                elif isinstance(a, tuple) or isinstance(b, tuple):
                    raise Unsupported("tuple-valued variable merged")
                else:
                    merged[k] = z3.If(c, a, b)
            return merged
        if isinstance(st, ast.Raise):
            name = "Exception"
            if st.exc is not None:
                f = st.exc.func if isinstance(st.exc, ast.Call) else st.exc
                name = ast.unparse(f)
            self.out.raised = z3.Or(self.out.raised, self.live)
            self.out.raise_kind[name] = z3.Or(self.out.raise_kind.get(name, z3.BoolVal(False)), self.live)
            self.live = z3.BoolVal(False)
            return env
        if isinstance(st, ast.Return):
            val = self.expr(st.value, env) if st.value is not None else ()
            if not isinstance(val, tuple):
                val = (val,)
            if self.out.ret is None:
                self.out.ret = val
            else:
                if len(val) != len(self.out.ret):
                    raise Unsupported("returns of different arity")
                self.out.ret = tuple(z3.If(self.live, v, o) for v, o in zip(val, self.out.ret))
            self.out.returned = z3.Or(self.out.returned, self.live)
            self.live = z3.BoolVal(False)
            return env
        raise Unsupported("statement %s" % type(st).__name__)

    def call(self, *args, **kwargs):
        """Translate one invocation; returns Outcome."""
        self.out = Outcome()
        self.live = z3.BoolVal(True)
        self.maybe_unbound = {}
        a = self.fn.args
        if a.vararg or a.kwarg or a.kwonlyargs or a.posonlyargs:
            raise Unsupported("signature")
        names = [x.arg for x in a.args]
        defaults = dict(zip(names[len(names) - len(a.defaults):], a.defaults))
        env = {}
        for i, n in enumerate(names):
            if i < len(args):
                env[n] = args[i]
            elif n in kwargs:
                env[n] = kwargs[n]
            elif n in defaults:
                env[n] = self.expr(defaults[n], {})
            else:
                raise Unsupported("missing argument %s" % n)
        self.block(self.fn.body, env)
        self.out.fell_through = self.live
        return self.out
