"""Shared machinery for the generic-parser properties (C02 / C14 / C15): templates with symbolic digits, the stubs
that let the real parser run on them, and field oracles."""
import contextlib
import datetime

from engine import numtok, stubs
from engine import sym as S

# field spec: (kind, ndigits).  kinds: Y year(4) y year(2) M month D day h hour(24) H hour(12) m minute s second
# f fraction (n digits) oh/om offset hours/minutes; anything else in a template is literal text.
F = lambda kind, n: ("F", kind, n)


def build(template):
    """-> (pieces for SymText, {field kind: [digit names]}, ordered digit names)"""
    pieces, fields, names = [], {}, []
    cnt = 0
    for t in template:
        if isinstance(t, tuple):
            _, kind, n = t
            for _i in range(n):
                nm = "d%d" % cnt
                cnt += 1
                pieces.append(("d", nm))
                fields.setdefault(kind, []).append(nm)
                names.append(nm)
        else:
            pieces.append(t)
    return pieces, fields, names


def num(kw, names):
    n = len(names)
    return S.add(*[S.mulc(kw[nm], 10 ** (n - 1 - i)) for i, nm in enumerate(names)]) if names else None


class _Monthrange(object):
    def __call__(self, year, month):
        return (None, S.days_in_month(year, month))


@contextlib.contextmanager
def parser_stubs(current_year=None, local_tznames=("LCL", "LCD")):
    """Rebind, as seen from dateutil.parser._parser: Decimal / int / float (NumTok-aware), monthrange (fork-free),
    tz (tzoffset without the instance cache), _timelex.split (token structure of a SymText)."""
    import decimal
    import dateutil.parser._parser as P
    from dateutil import tz as realtz

    class _TzShim(object):
        UTC = realtz.UTC
        tzutc = realtz.tzutc
        tzlocal = realtz.tzlocal
        enfold = staticmethod(realtz.enfold)

        @staticmethod
        def tzstr(s_, posix_offset=False):
            return realtz.tzstr.instance(s_, posix_offset)

        @staticmethod
        def tzoffset(name, offset):
            return realtz.tzoffset.instance(name, offset)
    import time as realtime

    class _TimeShim(object):
        """`time` as seen from the parser: the process's local zone names are fixed to names that are not UTC
        aliases (in this sandbox TZ=UTC would make 'UTC' a LOCAL name and route every UTC designator through tzlocal)."""
        tzname = local_tznames
        localtime = staticmethod(realtime.localtime)
        timezone, altzone, daylight = 0, 0, 0
    real_split = P._timelex.split
    P._timelex.split = staticmethod(numtok.split_stub(real_split))
    try:
        with stubs.rebind("dateutil.parser._parser", Decimal=numtok.dec_model(decimal.Decimal),
                          int=numtok.int_model(int), float=numtok.float_model(float), monthrange=_Monthrange(), tz=_TzShim,
                          time=_TimeShim):
            yield
    finally:
        P._timelex.split = real_split


@contextlib.contextmanager
def native_env(local_tznames=("LCL", "LCD")):
    """For the native replay: the same assumption about the process's local zone names as under the tracer."""
    import time as realtime

    class _TS(object):
        tzname = local_tznames
        localtime = staticmethod(realtime.localtime)
        timezone, altzone, daylight = 0, 0, 0
    import dateutil.parser._parser  # noqa
    with stubs.rebind("dateutil.parser._parser", time=_TS):
        yield


def prep():
    stubs.patch_date_decompose()
    stubs.patch_format_elision()


def validate_split_stub(templates, seed=0):
    """The stub assumes the lexer's token structure depends only on character classes: lex several concrete
    renderings of every template with the real lexer and compare token shapes."""
    import random
    import dateutil.parser._parser as P
    rnd = random.Random(seed)
    bad = []
    n = 0
    for tpl in templates:
        pieces, _f, names = build(tpl)
        st = numtok.SymText(pieces, {nm: 1 for nm in names})
        ref = [_shape(t) for t in P._timelex.split(st.representative())]
        for _ in range(6):
            vals = {nm: rnd.randint(0, 9) for nm in names}
            got = [_shape(t) for t in P._timelex.split(st.render(vals))]
            n += 1
            if got != ref:
                bad.append((st.representative(), st.render(vals)))
    return n, bad


def _shape(tok):
    return "".join("9" if c.isdigit() else c for c in tok)
