"""C09 relativedelta(dt1, dt2) is the calendar difference that carries dt2 onto dt1."""
import contextlib

from engine import chx, report, stubs
from engine import sym as S
from engine.chx import Cell

M = "harness.c09"


class _CalShim(object):
    """`calendar` as seen from dateutil.relativedelta: fork-free monthrange/isleap (the stdlib versions build a
    weekday enum and branch on the month)."""

    @staticmethod
    def monthrange(year, month):
        return (None, S.days_in_month(year, month))

    @staticmethod
    def isleap(year):
        return S.is_leap(year)


@contextlib.contextmanager
def rd_stubs():
    import dateutil.relativedelta  # noqa
    with stubs.rebind("dateutil.relativedelta", calendar=_CalShim):
        yield


def _prep():
    stubs.patch_date_decompose()
    stubs.patch_format_elision()


def _valid_date(ctx, y, m, d):
    ctx.assume(S.valid_ymd(y, m, d))


def h_diff(kind, span, y2c=None, dy=None, micro=True, md2=None, sameday=False):
    """kind: 'date' | 'datetime' | 'mixed' | 'aware'.  span: None = years 1..9999 independently, or an int =
    |y1 - y2| <= span.  y2c: pin dt2's year to this value and dt1's year per path (y1 - y2 in -span..span);
    months, days and times stay symbolic."""
    import datetime
    from dateutil.relativedelta import relativedelta
    from dateutil import tz
    _prep()
    types = dict(y1=int, m1=int, d1=int, y2=int, m2=int, d2=int)
    withtime = kind in ("datetime", "aware", "mixed")
    if withtime:
        types.update(s1=int, u1=int)
        if kind != "mixed":
            types.update(s2=int, u2=int)

    def mk(ctx, y, m, d, s, u, aware):
        if s is None:
            return datetime.date(y, m, d)
        hh, rem = S.div(s, 3600), S.mod(s, 3600)
        return datetime.datetime(y, m, d, hh, S.div(rem, 60), S.mod(rem, 60), u,
                                 tzinfo=tz.tzutc() if aware else None)

    def fn(ctx, **kw):
        y1, m1, d1, y2, m2, d2 = [kw[k] for k in ("y1", "m1", "d1", "y2", "m2", "d2")]
        if y2c is not None:
            ctx.assume(y2 == y2c)
            y2 = y2c
            if dy is not None:
                ctx.assume(y1 == y2c + dy)
                y1 = y2c + dy
            else:
                ctx.assume(S.within(S.sub(y1, y2), -span, span))
                y1 = ctx.concrete(y1)
        if md2 is not None:          # dt2's month/day pinned by the cell (the datetime cells: times stay symbolic)
            ctx.assume(m2 == md2[0])
            ctx.assume(d2 == md2[1])
            m2, d2 = md2
        if sameday:                   # both operands on the pinned day: only the times (incl. microseconds) differ
            ctx.assume(m1 == m2)
            ctx.assume(d1 == d2)
            m1, d1 = m2, d2
        _valid_date(ctx, y1, m1, d1)
        _valid_date(ctx, y2, m2, d2)
        if span is not None:
            ctx.assume(S.within(S.sub(y1, y2), -span, span))
        s1 = u1 = s2 = u2 = None
        if withtime:
            s1, u1 = kw["s1"], kw["u1"]
            ctx.assume(S.within(s1, 0, 86399))
            ctx.assume(S.within(u1, 0, 999999 if micro else 0))
            if kind != "mixed":
                s2, u2 = kw["s2"], kw["u2"]
                ctx.assume(S.within(s2, 0, 86399))
                ctx.assume(S.within(u2, 0, 999999 if micro else 0))
        dt1 = mk(ctx, y1, m1, d1, s1, u1, kind == "aware")
        dt2 = mk(ctx, y2, m2, d2, s2, u2, kind == "aware")
        r = relativedelta(dt1, dt2)
        # only relative fields
        ctx.check(r.year is None and r.month is None and r.day is None and r.weekday is None and r.hour is None and
                  r.minute is None and r.second is None and r.microsecond is None and r.leapdays == 0,
                  "difference carries absolute fields", key="absolute-fields")
        ctx.check(S.and_(S.within(r.months, -11, 11), S.within(r.hours, -23, 23), S.within(r.minutes, -59, 59),
                         S.within(r.seconds, -59, 59), S.within(r.microseconds, -999999, 999999)),
                  "difference not normalised", key="ranges")
        # dt2 + r == dt1 through the real __add__ (compared in ordinal / time-of-day space)
        back = dt2 + r
        o1 = dt1.toordinal()
        same = S.eq(back.toordinal(), o1)
        if withtime:
            if isinstance(back, datetime.datetime):
                bs = S.add(S.mulc(back.hour, 3600), S.mulc(back.minute, 60), back.second)
                same = S.and_(same, S.eq(bs, s1), S.eq(back.microsecond, u1))
            else:       # a plain date stands for its midnight (the conversion relativedelta itself applies to a date operand)
                same = S.and_(same, S.eq(s1, 0), S.eq(u1, 0))
        ctx.check(same, "dt2 + relativedelta(dt1, dt2) != dt1", key="inverse")
        # maximality of the whole-month part: the residual duration does not change sign against the month shift
        # and one more month in the direction of dt1 passes it
        mtot = S.add(S.mulc(r.years, 12), r.months)
        # total residual in microseconds
        res = S.add(S.mulc(S.add(S.mulc(S.add(S.mulc(S.add(S.mulc(r.days, 24), r.hours), 60), r.minutes), 60), r.seconds), 1000000),
                    r.microseconds)
        if kind == "mixed":          # comparisons below need like with like: the date operand as its midnight
            dt2 = datetime.datetime(dt2.year, dt2.month, dt2.day)
        fwd = dt1 >= dt2
        if fwd:
            ctx.check(S.and_(S.le(0, mtot), S.le(0, res)), "forward difference has a negative part", key="sign")
            try:
                nxt = dt2 + relativedelta(months=mtot + 1)
            except (ValueError, OverflowError):
                return (0, 0, 0)
            ctx.check(nxt > dt1 or (S.eq(nxt.toordinal(), (dt2 + relativedelta(months=mtot)).toordinal())),
                      "one more whole month would still not pass dt1: months part not maximal", key="maximal")
        else:
            ctx.check(S.and_(S.le(mtot, 0), S.le(res, 0)), "backward difference has a positive part", key="sign")
            try:
                nxt = dt2 + relativedelta(months=mtot - 1)
            except (ValueError, OverflowError):
                return (0, 0, 0)
            ctx.check(nxt < dt1 or (S.eq(nxt.toordinal(), (dt2 + relativedelta(months=mtot)).toordinal())),
                      "one more whole month would still not pass dt1: months part not maximal", key="maximal")
        return (int(r.years), int(r.months), int(r.days))
    return fn, types, rd_stubs


def h_self(kind):
    import datetime
    from dateutil.relativedelta import relativedelta
    _prep()
    types = dict(y=int, m=int, d=int, s=int)

    def fn(ctx, y, m, d, s):
        _valid_date(ctx, y, m, d)
        ctx.assume(S.within(s, 0, 86399))
        if kind == "date":
            dt = datetime.date(y, m, d)
        else:
            dt = datetime.datetime(y, m, d, S.div(s, 3600), S.div(S.mod(s, 3600), 60), S.mod(s, 60))
        r = relativedelta(dt, dt)
        ctx.check(not r, "relativedelta(dt, dt) is not empty", key="self-empty")
        return bool(r)
    return fn, types, rd_stubs


REPY = (2024, 1900, 2000, 2023, 2, 9998)


def cells(tier):
    q = tier == "quick"
    cs = []
    B = 1 if q else 8
    cs.append(Cell(M, "h_self", dict(kind="date"), budget_s=60 * B))
    cs.append(Cell(M, "h_self", dict(kind="datetime"), budget_s=60 * B))
    years = REPY[:3] if q else REPY + (2100,)
    for kind in ("date", "datetime") + (() if q else ("mixed", "aware")):
        for y in (years if kind in ("date", "datetime") else years[:2]):
            for dy in ((-1, 0, 1) if (q or kind != "date") else (-2, -1, 0, 1, 2)):
                if not (1 <= y + dy <= 9999):
                    continue
                if kind == "date":
                    cs.append(Cell(M, "h_diff", dict(kind=kind, span=2, y2c=y, dy=dy), budget_s=200 * B, per_path_s=30))
                elif q and (y != 2024 or dy != 0):
                    continue
                else:
                    if q:
                        cs.append(Cell(M, "h_diff", dict(kind=kind, span=2, y2c=y, dy=dy, micro=True, md2=[3, 15], sameday=True),
                                       budget_s=280, per_path_s=30))
                        # a plain date against a datetime (either order is reached through the sign of the difference)
                        cs.append(Cell(M, "h_diff", dict(kind="mixed", span=2, y2c=y, dy=dy, micro=True, md2=[3, 15], sameday=True),
                                       budget_s=200, per_path_s=30))
                        cs.append(Cell(M, "h_diff", dict(kind="mixed", span=2, y2c=y, dy=dy, micro=True, md2=[1, 31]),
                                       budget_s=280, per_path_s=30))
                    for md in (((1, 31), (2, 29)) if q else ((1, 31), (2, 29), (12, 31))):
                        if md == (2, 29) and not ((y % 4 == 0 and y % 100 != 0) or y % 400 == 0):
                            continue
                        cs.append(Cell(M, "h_diff", dict(kind=kind, span=2, y2c=y, dy=dy, micro=not q, md2=list(md)),
                                       budget_s=280 if q else 2400, per_path_s=30))
    if not q:
        cs.append(Cell(M, "h_diff", dict(kind="date", span=3), budget_s=3000, per_path_s=120))
    return cs


ASSUMPTIONS = [
    "operands are valid dates in years 1..9999; time of day as whole seconds + microseconds",
    "`calendar` as seen from dateutil.relativedelta = fork-free monthrange/isleap; CrossHair's datetime model with the calendar stubs of engine/stubs.py; each path witness replayed natively on real datetime",
    "dt2's year is a cell parameter from a representative list (leap, century, 400-year, boundary years) and dt1's year is pinned per path within +-1 (quick) / +-2 (thorough) of it; "
    "datetime cells additionally pin dt2's month/day to a listed value (month ends, leap day, mid-month); "
    "months, days, seconds (and, in the thorough tier, microseconds) of both operands are unconstrained solver variables.  One thorough cell keeps both years symbolic (|y1-y2| <= 3); it may end inconclusive",
]
OUTSIDE = ["aware operands in zones other than UTC", "float fields"]


def run(tier, seed, jobs):
    cs = report.filter_cells(cells(tier))
    res = chx.run_cells(cs, jobs)
    return report.aggregate("C09", res, assumptions=ASSUMPTIONS, bounds=dict(years="1..9999"), outside=OUTSIDE,
                            stubs=["calendar shim", "calendar stubs"])
