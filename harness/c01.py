"""C01 rrule yields exactly the RFC 5545 recurrence set, in order.

L-B (end to end): the start YEAR is the solver variable (all of 2..9990-span); month/day/time of the start and
the rule shape are cell parameters.  The harness first splits on the calendar class of the years the prefix
can touch (weekday of 1 January, year mod 4, century exceptions) and hands the solver the year-step lemma; the
real rrule then runs with a symbolic year ordinal.  For each class a representative year is peeked from the
solver (no constraint added), the independent reference (harness/rfc5545.py) computes the expected prefix for
it, and z3 proves that FOR EVERY year of the class the yielded instants are the start year's 1 January plus
exactly those day offsets and times.  (Within a class the calendars of all touched years coincide, so the
reference's offsets are the same for every member -- the one argument not machine-checked.)
L-A (kernels): __mod_distance and __construct_byset against their defining equations with symbolic values.
L-C (constructor): normalised BY-part state vs the documented normalisation with symbolic members.
"""
import contextlib
import datetime
import itertools

from engine import chx, report, stubs
from engine import sym as S
from engine.chx import Cell
from harness import rfc5545 as R

M = "harness.c01"
WD = ("MO", "TU", "WE", "TH", "FR", "SA", "SU")


def _kwargs(shape):
    """shape dict -> (dateutil kwargs, reference kwargs)."""
    from dateutil.rrule import weekday
    kw, rk = {}, {}
    for k, v in shape.items():
        if k in ("freq", "span", "K", "until_days"):
            continue
        if k == "byweekday":
            kw[k] = tuple(w if isinstance(w, int) else weekday(w[0], w[1]) for w in v)
            rk[k] = tuple(w if isinstance(w, int) else (w[0], w[1]) for w in v)
        else:
            kw[k] = tuple(v) if isinstance(v, list) else v
            rk[k] = tuple(v) if isinstance(v, list) else v
    return kw, rk


_CLASSES = {}


def calendar_classes(lo, hi, ylo=1, yhi=9999):
    """All calendar classes of a window of years [y+lo, y+hi]: signature = (weekday of 1 Jan of y, leap flags of the
    window).  Computed by an exhaustive native scan of the years ylo..yhi; returns [(signature, first year, count)]."""
    key = (lo, hi, ylo, yhi)
    if key not in _CLASSES:
        seen = {}
        for y in range(ylo, yhi + 1):
            if y + lo < 1 or y + hi > 9999:
                continue
            sig = (datetime.date(y, 1, 1).weekday(), tuple(R._isleap(y + k) for k in range(lo, hi + 1)))
            if sig not in seen:
                seen[sig] = [y, 0]
            seen[sig][1] += 1
        _CLASSES[key] = sorted((sig, v[0], v[1]) for sig, v in seen.items())
    return _CLASSES[key]


def h_prefix(shape, m0, d0, tod, aware=False, asdate=False, years=None):
    """End-to-end prefix of K occurrences against the independent reference, once per CALENDAR CLASS of the years
    the prefix can touch.  The class index is the solver variable (its values are enumerated path by path); inside a
    path the rule runs on the class's representative year with ordinary concrete execution -- symbolic years made
    every solver query `unknown` (see DESIGN.md), so this layer is class enumeration, not a symbolic proof.
    `years`: explicit list of start years instead of the class representatives (boundary cells)."""
    from dateutil import rrule as RR
    from dateutil import tz
    freq = shape["freq"]
    K = shape.get("K", 3)
    span = shape.get("span", 2)
    kw, rk = _kwargs(shape)
    hh, mi, ss = tod
    tzinfo = tz.tzutc() if aware else None
    if years is None:
        reps = [c[1] for c in calendar_classes(-1, span + 1, ylo=2, yhi=9990)]
        reps = [y for y in reps if not (m0 == 2 and d0 == 29 and not R._isleap(y))]
    else:
        reps = list(years)
    types = dict(c=int)

    def fn(ctx, c):
        ctx.assume(S.within(c, 0, len(reps) - 1))
        y = reps[ctx.concrete(c)]
        if ctx.symbolic:
            return None          # all inputs are pinned: the check itself runs in the native replay of this path's witness
        with ctx.untraced():
            start = datetime.date(y, m0, d0) if asdate else datetime.datetime(y, m0, d0, hh, mi, ss, tzinfo=tzinfo)
            rstart = datetime.datetime(y, m0, d0) if asdate else start
            extra = {}
            if shape.get("until_days") is not None:
                extra["until"] = rstart + datetime.timedelta(days=shape["until_days"])
            try:
                exp = list(R.gen(R.Params(freq, **dict(rk, **extra)), rstart, K, horizon_periods=(40, 300, 600, 2500, 20000, 100000, 200000)[freq]))
            except Exception as e:      # noqa
                ctx.fail("reference failed: %r" % (e,), key="reference-error")
            try:
                rule = RR.rrule(freq, dtstart=start, **dict(kw, **extra))
                got = list(itertools.islice(rule, K))
            except ValueError as e:
                ctx.check(not exp, "rule raises ValueError (%s) although occurrences exist" % (e,), key="raises-ValueError:%s" % _shape_key(shape))
                return None
            except Exception as e:
                ctx.fail("iteration raised %s" % type(e).__name__, key="raises-%s:%s" % (type(e).__name__, _shape_key(shape)))
            sk = _shape_key(shape)
            ctx.check(len(got) == len(exp), "yields %d occurrences where the recurrence set has %d (within the prefix of %d); start %s" % (
                len(got), len(exp), K, start), key="count:" + sk, got=repr(got[:3]), exp=repr(exp[:3]))
            for j, (x, e) in enumerate(zip(got, exp)):
                ctx.check(x == e, "occurrence #%d is %s, the recurrence set has %s (start %s)" % (j + 1, x, e, start), key="value:" + sk)
                ctx.check(x.microsecond == 0 and x.tzinfo is tzinfo, "occurrence does not carry whole seconds / the start's tzinfo", key="tz:" + sk)
            for a_, b_ in zip(got, got[1:]):
                ctx.check(a_ < b_, "not strictly increasing", key="order:" + sk)
        return None
    return fn, types


def _shape_key(shape):
    return ",".join("%s=%s" % (k, str(v).replace(" ", "")) for k, v in sorted(shape.items()) if k not in ("span", "K"))


# ---------------------------------------------------------------------------- L-A kernels
def h_mod_distance(base):
    from dateutil import rrule as RR
    import math
    types = dict(value=int, b=int, interval=int)

    def fn(ctx, value, b, interval):
        ctx.assume(S.within(value, 0, base - 1))
        ctx.assume(S.within(b, 0, base - 1))
        ctx.assume(S.within(interval, 1, 13 if base == 24 else 31))
        interval = ctx.concrete(interval)
        g = math.gcd(interval, base)
        rule = RR.rrule(RR.HOURLY, dtstart=datetime.datetime(2000, 1, 1), count=1)
        rule._interval = interval
        r = rule._rrule__mod_distance(value=value, byxxx=(b,), base=base)
        reachable = S.eq(S.mod(S.add(S.sub(b, value), base * 4), g), 0)
        if r is None:
            ctx.check(S.not_(reachable), "__mod_distance gives up although the value is reachable", key="moddist-none")
            return None
        acc, v2 = r
        ctx.check(reachable, "__mod_distance claims to reach an unreachable value", key="moddist-unreachable")
        ctx.check(v2 == b, "__mod_distance returns a value outside byxxx", key="moddist-value")
        # acc*base + v2 == value + k*interval for the LEAST k >= 1: 0 < total <= lcm(interval, base) and interval | total
        tot = acc * base + v2 - value
        lcm = interval * base // g
        ctx.check(S.and_(S.lt(0, tot), S.le(tot, lcm), S.eq(S.mod(tot, interval), 0)),
                  "__mod_distance distance is not the least positive multiple of the interval reaching the value", key="moddist-least")
        return None
    return fn, types


def h_construct_byset(base):
    from dateutil import rrule as RR
    import math
    types = dict(start=int, v=int, interval=int)

    def fn(ctx, start, v, interval):
        ctx.assume(S.within(start, 0, base - 1))
        ctx.assume(S.within(v, 0, base - 1))
        ctx.assume(S.within(interval, 1, base + 1))
        interval = ctx.concrete(interval)               # math.gcd needs a concrete int
        rule = RR.rrule(RR.HOURLY, dtstart=datetime.datetime(2000, 1, 1), count=1)
        rule._interval = interval
        g = math.gcd(interval, base)
        reachable = S.eq(S.mod(S.add(S.sub(v, start), base * 4), g), 0)
        try:
            cs = rule._rrule__construct_byset(start=start, byxxx=(v,), base=base)
            ctx.check(reachable, "__construct_byset keeps a value the interval can never reach", key="byset-unreachable")
            ctx.check(len(cs) == 1, "byset size", key="byset-size")
        except ValueError:
            ctx.check(S.not_(reachable), "__construct_byset rejects a reachable value", key="byset-reject")
        return None
    return fn, types


# ---------------------------------------------------------------------------- L-C constructor normalisation
def h_construct(freq):
    from dateutil import rrule as RR
    from dateutil.rrule import weekday
    types = dict(md1=int, md2=int, mo=int, wd=int, n=int, sp=int)

    def fn(ctx, md1, md2, mo, wd, n, sp):
        ctx.assume(S.and_(S.within(md1, -31, 31), S.not_(S.eq(md1, 0))))
        ctx.assume(S.and_(S.within(md2, -31, 31), S.not_(S.eq(md2, 0))))
        ctx.assume(S.within(mo, 1, 12))
        ctx.assume(S.within(wd, 0, 6))
        ctx.assume(S.within(n, -3, 3))
        ctx.assume(S.within(sp, -367, 367))
        wd, n = ctx.concrete(wd), ctx.concrete(n)
        start = datetime.datetime(2024, 3, 15, 10, 30)
        wdobj = weekday(wd, n) if n else weekday(wd)
        try:
            r = RR.rrule(freq, dtstart=start, bymonthday=(md1, md2), bymonth=mo, byweekday=(wdobj,), bysetpos=sp)
        except ValueError:
            ctx.check(S.or_(S.eq(sp, 0), S.lt(sp, -366), S.lt(366, sp)), "constructor rejects a legal BYSETPOS", key="ctor-setpos-reject")
            return "ValueError"
        ctx.check(S.and_(S.not_(S.eq(sp, 0)), S.within(sp, -366, 366)), "constructor accepts an illegal BYSETPOS", key="ctor-setpos-accept")
        pos = [v for v in r._bymonthday]
        neg = [v for v in r._bynmonthday]
        ctx.check(all(bool(v > 0) for v in pos) and all(bool(v < 0) for v in neg), "positive/negative BYMONTHDAY split wrong", key="ctor-split")
        ctx.check(len(pos) + len(neg) == (1 if bool(md1 == md2) else 2), "BYMONTHDAY members lost or duplicated", key="ctor-members")
        for v in (md1, md2):
            ctx.check(any(bool(v == x) for x in pos + neg), "a BYMONTHDAY member disappeared", key="ctor-members")
        ctx.check(r._bymonth == (mo,), "BYMONTH not stored", key="ctor-bymonth")
        if n and freq <= RR.MONTHLY:
            ctx.check(r._bynweekday == ((wd, n),) and r._byweekday is None, "nth weekday not kept as nth", key="ctor-nth")
        else:
            ctx.check(r._byweekday == (wd,) and r._bynweekday is None, "plain weekday (or nth above MONTHLY) not reduced to plain", key="ctor-plain")
        ctx.check(r._timeset is None or [(t.hour, t.minute, t.second) for t in r._timeset] == [(10, 30, 0)],
                  "default timeset is not the start's time", key="ctor-timeset")
        return "ok"
    return fn, types


# ---------------------------------------------------------------------------- shapes
def shapes(tier):
    Y, MO_, W, D_, H, MI, SE = range(7)
    s = []
    A = lambda **k: s.append(k)
    # one per mechanism (quick)
    A(freq=Y, span=3)
    A(freq=Y, interval=2, bymonth=[1, 3], span=5)
    A(freq=Y, byweekno=[1, -1], byweekday=[0, 6], span=3)
    A(freq=Y, byyearday=[1, 100, -1], span=3)
    A(freq=Y, byweekday=[[1, 1], [3, -1]], span=3)
    A(freq=MO_, interval=2, bymonthday=[-1], span=2)
    A(freq=MO_, byweekday=[[4, 1], [4, -1]], span=1)
    A(freq=MO_, byweekday=[0, 1, 2, 3, 4], bysetpos=[-1], span=1)
    A(freq=W, interval=2, wkst=6, byweekday=[1, 3], span=1)
    A(freq=D_, interval=3, bymonth=[1, 12], span=1)
    A(freq=H, interval=7, byhour=[3, 10], span=1)
    A(freq=MI, interval=50, span=1)
    A(freq=W, byyearday=[-364], wkst=0, span=2, K=3)
    A(freq=W, byyearday=[-366, -365, 3], span=2, K=4)
    A(freq=W, byyearday=[1, 2, -1], wkst=3, interval=2, span=3, K=3)
    # positive and negative BYSETPOS members addressing the same candidate: yielded once
    A(freq=W, byweekday=[0, 2, 4], bysetpos=[3, -1], span=1, K=4)
    A(freq=Y, bymonth=[2], bymonthday=[28, 29], bysetpos=[2, -1], span=5, K=4)
    A(freq=MO_, bymonthday=[31], byhour=[6, 18], bysetpos=[1, 2, -1], span=1, K=5)
    # an nth weekday that does not exist in one of two adjacent months must not spill into the neighbour
    A(freq=Y, bymonth=[2, 3], byweekday=[[1, 5]], span=9, K=3)
    A(freq=Y, bymonth=[4, 5, 6], byweekday=[[0, -5], [6, 5]], span=5, K=4)
    # shapes that expose the recorded findings (kept so that the findings stay visible and anything new next to them is reported)
    A(freq=MO_, byweekday=[0, [4, 1]], span=2, until_days=200)
    A(freq=MO_, byweekday=[[6, 52]], span=1)
    A(freq=Y, byweekno=[-53], span=8, K=2)
    A(freq=Y, byweekno=[-52], span=3, K=3)
    A(freq=Y, bymonthday=[29], bymonth=[2], span=13, K=3)
    A(freq=Y, bymonthday=[31], span=2)
    A(freq=Y, byweekno=[53], span=8, K=2)
    A(freq=Y, byweekno=[1], byweekday=[0], wkst=6, span=3)
    A(freq=Y, byweekno=[20], wkst=2, span=3)
    A(freq=Y, byyearday=[366], span=9, K=2)
    A(freq=Y, byyearday=[-366, 60], span=5)
    A(freq=Y, byweekday=[[0, 53]], span=9, K=2)
    A(freq=Y, byweekday=[[6, -53]], span=9, K=2)
    A(freq=Y, bymonth=[3], byweekday=[[6, 5]], span=9, K=2)
    A(freq=Y, interval=3, bymonth=[2, 9], bymonthday=[1, -1], span=7)
    A(freq=Y, byeaster=[0, -2, 49], span=3, easter=True)
    A(freq=MO_, bymonthday=[31], span=1)
    A(freq=MO_, bymonthday=[-31, 30], span=1)
    A(freq=MO_, interval=5, span=2)
    A(freq=MO_, interval=12, bymonthday=[29], span=4)
    A(freq=MO_, byweekday=[[0, 5]], span=2, K=3)
    A(freq=MO_, byweekday=[5, 6], bysetpos=[1, -1], span=1, K=4)
    A(freq=MO_, bymonthday=[13], byweekday=[4], span=3, K=2)
    A(freq=W, byweekday=[0, 6], wkst=0, span=1, K=4)
    A(freq=W, byweekday=[0, 6], wkst=6, span=1, K=4)
    A(freq=W, interval=3, span=1)
    A(freq=W, interval=2, wkst=3, byweekday=[2, 4], bysetpos=[2], span=1)
    A(freq=W, bymonth=[1, 12], span=1, K=4)
    A(freq=D_, interval=30, span=1, K=4)
    A(freq=D_, byweekday=[5], bymonthday=[13], span=3, K=2)
    A(freq=D_, bymonthday=[-1, 1], span=1, K=4)
    A(freq=D_, byyearday=[365, -1], span=2, K=3)
    A(freq=D_, count=2, span=1, K=4)
    A(freq=D_, until_days=40, interval=17, span=1, K=5)
    A(freq=H, interval=5, span=1, K=6)
    A(freq=H, byhour=[23, 0], byweekday=[6], span=1)
    A(freq=H, interval=4, byhour=[1, 5, 9], bymonthday=[31], span=1)
    A(freq=MI, interval=17, byminute=[0, 30], span=1)
    A(freq=MI, interval=90, byhour=[0, 12], span=1)
    A(freq=SE, interval=86399, span=1)
    A(freq=SE, interval=7, bysecond=[0, 30], byminute=[59], span=1)
    return s


STARTS = [((12, 31), (23, 59, 59)), ((2, 29), (9, 0, 0)), ((1, 1), (0, 0, 0)), ((9, 2), (9, 0, 0)), ((1, 31), (6, 30, 15))]


def cells(tier):
    q = tier == "quick"
    cs = []
    for i, sh in enumerate(shapes(tier)):
        sts = STARTS[3:4] + STARTS[:2] if q else STARTS
        for (md, tod) in sts:
            shp = {k: v for k, v in sh.items() if k != "easter"}
            if not q:
                shp["K"] = max(shp.get("K", 3), 5)
                shp["span"] = shp.get("span", 2) * 2
            p = dict(shape=shp, m0=md[0], d0=md[1], tod=list(tod))
            if sh.get("easter"):
                if md == (2, 29):
                    continue
                p["years"] = list(range(1990, 2030)) if q else list(range(1583, 1583 + 600, 7)) + list(range(1990, 2060))
            nm = "prefix[%s]@%02d-%02d" % (_shape_key(sh), md[0], md[1])
            cs.append(Cell(M, "h_prefix", p, name=nm, budget_s=300 if q else 1500, per_path_s=60, max_violations=200))
    # date and aware starts; year 1; the MAXYEAR stop
    cs.append(Cell(M, "h_prefix", dict(shape=dict(freq=1, interval=2, bymonthday=[-1], span=2), m0=1, d0=31, tod=[0, 0, 0], asdate=True),
                   name="prefix[date start]", budget_s=600, per_path_s=60))
    cs.append(Cell(M, "h_prefix", dict(shape=dict(freq=2, byweekday=[0, 3], span=1), m0=9, d0=2, tod=[9, 0, 0], aware=True),
                   name="prefix[aware start]", budget_s=600, per_path_s=60))
    cs.append(Cell(M, "h_prefix", dict(shape=dict(freq=0, byweekno=[1], span=2), m0=1, d0=5, tod=[0, 0, 0], years=[1, 2]),
                   name="prefix[year 1, byweekno]", budget_s=300, per_path_s=60))
    cs.append(Cell(M, "h_prefix", dict(shape=dict(freq=0, interval=2, span=2, K=4), m0=6, d0=1, tod=[0, 0, 0], years=[9995, 9996, 9997, 9998, 9999]),
                   name="prefix[MAXYEAR stop, yearly]", budget_s=300, per_path_s=60))
    cs.append(Cell(M, "h_prefix", dict(shape=dict(freq=3, interval=200, span=2, K=4), m0=6, d0=1, tod=[0, 0, 0], years=[9998, 9999]),
                   name="prefix[MAXYEAR stop, daily]", budget_s=300, per_path_s=60))
    for base in ((24,) if q else (24, 60)):
        cs.append(Cell(M, "h_mod_distance", dict(base=base), budget_s=400 if q else 1200, per_path_s=30))
    for base in (24, 60):
        cs.append(Cell(M, "h_construct_byset", dict(base=base), budget_s=300 if q else 1500, per_path_s=30))
    for f in ((0, 1, 3) if q else range(7)):
        cs.append(Cell(M, "h_construct", dict(freq=f), budget_s=300 if q else 1500, per_path_s=30))
    return cs


ASSUMPTIONS = [
    "kernel cells (__mod_distance, __construct_byset, constructor normalisation): values are solver variables, z3 decides every path (the interval is pinned per path because math.gcd needs a concrete int)",
    "prefix cells: the solver variable is the index of the CALENDAR CLASS of the window of years the prefix can touch (weekday of 1 January + leap flags; all classes are found by an "
    "exhaustive native scan of the years 2..9990, so every start year belongs to an enumerated class); within a path the real rrule runs on the class's representative year by plain "
    "concrete execution and is compared with the independent reference (harness/rfc5545.py).  This layer is class enumeration through the engine, NOT a symbolic proof: with a symbolic "
    "year every solver query about the calendar came back `unknown` (measured: 8 of 9 paths, 30 s each)",
    "that a rule's behaviour is the same for all years of a class is a paper argument (rrule consults the year only through leap status, weekday of 1 January and ordinal differences)",
    "the reference agrees with dateutil on 10 000 random rules except plain+nth BYDAY mixtures and BYDAY ordinals beyond the period (IndexError), see known_findings.txt",
]
OUTSIDE = ["shapes outside the cell list (arbitrary combinations of >= 3 BY-parts, longer member tuples)", "prefixes longer than K (3-5)",
           "aware starts in zones with DST", "dtstart=None (clock)", "start dates other than the 5 listed month/day/time combinations"]


def run(tier, seed, jobs):
    cs = report.filter_cells(cells(tier))
    res = chx.run_cells(cs, jobs)
    ncls = len(calendar_classes(-1, 3, ylo=2, yhi=9990))
    return report.aggregate("C01", res, assumptions=ASSUMPTIONS, bounds=dict(years="2..9990 via %d calendar classes (window -1..+3)" % ncls, cells=len(cs)),
                            outside=OUTSIDE, level="other",
                            explanation="Mixed: the constructor normalisation cells (h_construct*, h_mod_distance) are decided "
                            "symbolically (CrossHair paths + z3 over symbolic rule parameters); the end-to-end occurrence-list "
                            "cells cannot be (every query over a symbolic start year came back unknown), so they enumerate the "
                            "%d calendar classes of (leap pattern, Jan-1 weekday) windows that exist in years 2..9990, the start "
                            "month/day/weekday choice is solver-split per class, and each resulting concrete rule is run on the "
                            "real rrule and compared with the RFC 5545 brute-force reference" % ncls)
