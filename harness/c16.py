"""C16 relativedelta is a well-behaved value (normalised, comparable, hashable)."""
import contextlib

from engine import chx, report
from engine.chx import Cell

BIG = 10 ** 12
US_D = 86400 * 10 ** 6


def _float_model(v):
    if type(v) is int or type(v) is bool:
        return v
    return float(v)


def _total_us(days, hours, minutes, seconds, us):
    return (((days * 24 + hours) * 60 + minutes) * 60 + seconds) * 1000000 + us


def _in_ranges(ctx, d, what):
    ctx.check(-999999 <= d.microseconds <= 999999, what + ": |microseconds| > 999999", key="range-us")
    ctx.check(-59 <= d.seconds <= 59, what + ": |seconds| > 59", key="range-s")
    ctx.check(-59 <= d.minutes <= 59, what + ": |minutes| > 59", key="range-min")
    ctx.check(-23 <= d.hours <= 23, what + ": |hours| > 23", key="range-h")
    ctx.check(-11 <= d.months <= 11, what + ": |months| > 11", key="range-mon")


def _same_fields(a, b):
    return ((a.years == b.years) & (a.months == b.months) & (a.days == b.days) &
            (a.hours == b.hours) & (a.minutes == b.minutes) & (a.seconds == b.seconds) &
            (a.microseconds == b.microseconds) & (a.leapdays == b.leapdays))


# ---------------------------------------------------------------- cell: constructor normalisation
def h_construct(group):
    """group selects which relative arguments are symbolic (the others are 0): keeps trees small
    while every carry chain (us->s->min->h->d, months->years) is covered with full-range values."""
    from dateutil.relativedelta import relativedelta

    names = {"time": ("days", "hours", "minutes", "seconds", "microseconds"),
             "cal": ("years", "months", "weeks", "days", "leapdays"),
             "low": ("minutes", "seconds", "microseconds"),
             "all": ("years", "months", "days", "hours", "minutes", "seconds", "microseconds")}[group]
    types = {n: int for n in names}

    def fn(ctx, **kw):
        for n in names:
            ctx.assume(-BIG <= kw[n] <= BIG)
        d = relativedelta(**kw)
        g = lambda n: kw.get(n, 0)
        _in_ranges(ctx, d, "relativedelta(**kw)")
        ctx.check(d.years * 12 + d.months == g("years") * 12 + g("months"),
                  "constructor changed the months total", key="total-months")
        ctx.check(_total_us(d.days, d.hours, d.minutes, d.seconds, d.microseconds) ==
                  _total_us(g("days") + 7 * g("weeks"), g("hours"), g("minutes"), g("seconds"),
                            g("microseconds")),
                  "constructor changed the duration total", key="total-us")
        ctx.check(d.leapdays == g("leapdays"), "leapdays altered", key="leapdays")
        # reconstruction from own fields is an equal object with identical fields
        e = relativedelta(years=d.years, months=d.months, days=d.days, leapdays=d.leapdays,
                          hours=d.hours, minutes=d.minutes, seconds=d.seconds,
                          microseconds=d.microseconds)
        ctx.check(_same_fields(d, e), "reconstruction from own fields differs", key="reconstruct")
        ctx.check(d == e, "reconstruction not == original", key="reconstruct-eq")
        ctx.check(not (d != e), "!= inconsistent with ==", key="ne")
        return (int(d.years), int(d.months), int(d.days), int(d.hours), int(d.minutes),
                int(d.seconds), int(d.microseconds))
    return fn, types


# ---------------------------------------------------------------- cell: unary laws from an arbitrary normalised state
def h_unary(group):
    """State constructed directly: stored fields symbolic within the normalised ranges (what h_construct
    proves every constructor call establishes); days/years full range."""
    from dateutil.relativedelta import relativedelta
    names = {"time": ("days", "hours", "minutes", "seconds", "microseconds"),
             "cal": ("years", "months", "leapdays")}[group]
    types = {n: int for n in names}
    rng = dict(days=BIG, years=BIG, leapdays=3, hours=23, minutes=59, seconds=59, microseconds=999999, months=11)

    def fn(ctx, **kw):
        for n in names:
            ctx.assume(-rng[n] <= kw[n] <= rng[n])
        d = relativedelta(**kw)
        ctx.check(all(getattr(d, n) == kw[n] for n in names), "normalised arguments were altered", key="idem")
        n = -d
        _in_ranges(ctx, n, "-d")
        ctx.check(all(getattr(n, k) == -kw[k] for k in names if k != "leapdays"), "-d is not the field-wise negation", key="neg")
        ctx.check(_same_fields(-n, d) and (-n) == d, "-(-d) != d", key="negneg")
        z = d + n
        ctx.check((z.years == 0) & (z.months == 0) & (z.days == 0) & (z.hours == 0) &
                  (z.minutes == 0) & (z.seconds == 0) & (z.microseconds == 0),
                  "d + (-d) keeps a relative part", key="add-neg")
        allzero = ((d.years == 0) & (d.months == 0) & (d.days == 0) & (d.hours == 0) &
                   (d.minutes == 0) & (d.seconds == 0) & (d.microseconds == 0) & (d.leapdays == 0))
        ctx.check(bool(d) == (not allzero), "bool(d) disagrees with 'some field set'", key="bool")
        a = abs(d)
        _in_ranges(ctx, a, "abs(d)")
        ctx.check(all(getattr(a, k) == abs(kw[k]) for k in names if k != "leapdays"),
                  "abs(d) is not the field-wise absolute value", key="abs")
        return tuple(int(getattr(n, k)) for k in names)
    return fn, types


# ---------------------------------------------------------------- cell: binary + and -
def h_binary(op, group):
    from dateutil.relativedelta import relativedelta
    names = {"time": ("days", "hours", "minutes", "seconds", "microseconds"),
             "cal": ("years", "months", "leapdays")}[group]
    types = {}
    for n in names:
        types["a_" + n] = int
        types["b_" + n] = int

    def fn(ctx, **kw):
        for v in kw.values():
            ctx.assume(-BIG <= v <= BIG)
        ka = {n: kw["a_" + n] for n in names}
        kb = {n: kw["b_" + n] for n in names}
        a, b = relativedelta(**ka), relativedelta(**kb)
        g = lambda k, n: k.get(n, 0)
        sgn = 1 if op == "add" else -1
        r = (a + b) if op == "add" else (a - b)
        _in_ranges(ctx, r, "a %s b" % op)
        ctx.check(r.years * 12 + r.months ==
                  (g(ka, "years") * 12 + g(ka, "months")) + sgn * (g(kb, "years") * 12 + g(kb, "months")),
                  "a %s b: months total not the %s of the operands" % (op, op), key="bin-months")
        ta = _total_us(g(ka, "days"), g(ka, "hours"), g(ka, "minutes"), g(ka, "seconds"), g(ka, "microseconds"))
        tb = _total_us(g(kb, "days"), g(kb, "hours"), g(kb, "minutes"), g(kb, "seconds"), g(kb, "microseconds"))
        ctx.check(_total_us(r.days, r.hours, r.minutes, r.seconds, r.microseconds) == ta + sgn * tb,
                  "a %s b: duration total not the %s of the operands" % (op, op), key="bin-us")
        if op == "add":
            r2 = b + a
            ctx.check(_same_fields(r, r2) or (a.leapdays != 0 and b.leapdays != 0),
                      "a + b and b + a differ in relative fields", key="commute")
        return (int(r.years), int(r.months), int(r.days), int(r.hours), int(r.minutes),
                int(r.seconds), int(r.microseconds))
    return fn, types


# ---------------------------------------------------------------- cells: equality is an equivalence consistent with hash
FORMS = ("none", "int", "const", "obj", "objnone")
REL = ("years", "months", "days", "hours", "minutes", "seconds", "microseconds", "leapdays")
ABS = ("year", "month", "day", "hour", "minute", "second", "microsecond")


def _mkwd(form, w, n):
    from dateutil.relativedelta import weekdays
    from dateutil._common import weekday as wdcls
    if form == "none":
        return None
    if form == "int":
        return w
    if form == "const":
        return weekdays[w]
    if form == "obj":
        return wdcls(w, n)
    return wdcls(w, None)


def _wkey(form, w, n):
    """What the weekday argument denotes: None, or (weekday, n with absent == 1)."""
    if form == "none":
        return None
    return (w, (n if n != 0 else 1) if form == "obj" else 1)


def h_pair(form_a, form_b, wmax=6, fgroup="rel"):
    """Two deltas; weekday index and n symbolic, one further field (symbolically chosen among all 15) with
    symbolic values.  symmetric, != is the negation, == means field-wise equality modulo weekday-n,
    and == implies equal hash (real hash() on the realised pair)."""
    from dateutil.relativedelta import relativedelta
    types = dict(wa=int, na=int, wb=int, nb=int, fi=int, va=int, vb=int)
    fields = REL if fgroup == "rel" else ABS

    def fn(ctx, wa, na, wb, nb, fi, va, vb):
        for f, w, n in ((form_a, wa, na), (form_b, wb, nb)):
            ctx.assume((0 <= w) & (w <= (0 if f == "none" else wmax)))
            if f == "obj":
                ctx.assume((-2 <= n) & (n <= 2))          # n == 0 is accepted by relativedelta's weekday and means "absent"
            else:
                ctx.assume(n == 1)
        ctx.assume(0 <= fi < len(fields))
        fi = ctx.concrete(fi)
        name = fields[fi]
        lo, hi = (-1, 1) if fgroup == "rel" else (1, 2)
        for v in (va, vb):
            ctx.assume(lo <= v <= hi)
        a = relativedelta(weekday=_mkwd(form_a, wa, na), **{name: va})
        b = relativedelta(weekday=_mkwd(form_b, wb, nb), **{name: vb})
        ctx.check(a == a, "== not reflexive", key="refl")
        ab, ba = (a == b), (b == a)
        ctx.check(ab == ba, "== not symmetric", key="symm")
        ctx.check((a != b) == (not ab), "!= is not the negation of ==", key="ne")
        ka, kb = _wkey(form_a, wa, na), _wkey(form_b, wb, nb)
        if ka is None or kb is None:
            same_wd = ka is None and kb is None
        else:
            same_wd = (ka[0] == kb[0]) & (ka[1] == kb[1])
        exp = bool(same_wd) and bool(va == vb)
        ctx.check(bool(ab) == exp, "== disagrees with field-wise equality modulo weekday n in {None,1}",
                  key="eq-meaning")
        if ab:
            va, vb = ctx.concrete(va), ctx.concrete(vb)
            if form_a != "none":
                wa = ctx.concrete(wa)
            if form_b != "none":
                wb = ctx.concrete(wb)
            if form_a == "obj":
                na = ctx.concrete(na)
            if form_b == "obj":
                nb = ctx.concrete(nb)
            a2 = relativedelta(weekday=_mkwd(form_a, wa, na), **{name: va})
            b2 = relativedelta(weekday=_mkwd(form_b, wb, nb), **{name: vb})
            ctx.check(hash(a2) == hash(b2), "equal relativedeltas hash differently",
                      key="hash-wd-n" if repr(a2.weekday) != repr(b2.weekday) else "hash",
                      a=repr(a2), b=repr(b2))
        return bool(ab)
    return fn, types


def h_trans(group):
    """Three deltas, weekday form symbolic over {none, const, obj} (quick) / all five (thorough)."""
    from dateutil.relativedelta import relativedelta
    forms = FORMS if group == "all" else ("none", "const", "obj")
    types = dict(fa=int, fb=int, fc=int, wa=int, na=int, wb=int, nb=int, wc=int, nc=int, va=int, vb=int, vc=int)

    def fn(ctx, fa, fb, fc, wa, na, wb, nb, wc, nc, va, vb, vc):
        for f in (fa, fb, fc):
            ctx.assume(0 <= f < len(forms))
        for w in (wa, wb, wc):
            ctx.assume(0 <= w <= 1)
        for n in (na, nb, nc):
            ctx.assume((1 <= n) & (n <= 2))
        for v in (va, vb, vc):
            ctx.assume(v == 0)
        fa, fb, fc = [forms[ctx.concrete(f)] for f in (fa, fb, fc)]
        a = relativedelta(weekday=_mkwd(fa, wa, na), days=va)
        b = relativedelta(weekday=_mkwd(fb, wb, nb), days=vb)
        c = relativedelta(weekday=_mkwd(fc, wc, nc), days=vc)
        ab, bc, ac = (a == b), (b == c), (a == c)
        ctx.check((not (ab and bc)) or ac, "== not transitive", key="trans")
        return (bool(ab), bool(bc), bool(ac))
    return fn, types


# ---------------------------------------------------------------- cell: integer scalar * (exact in doubles below 2**53)
def h_scalar(k, group):
    """d * k and k * d from an arbitrary normalised state; |days|,|years| <= 10**9 so that every product is
    exactly representable as an IEEE double (the code multiplies by float(k))."""
    from dateutil.relativedelta import relativedelta
    names = {"time": ("days", "hours", "minutes", "seconds", "microseconds"),
             "low": ("minutes", "seconds", "microseconds"),
             "cal": ("years", "months")}[group]
    types = {n: int for n in names}
    LIM = 10 ** 9
    rng = dict(days=LIM, years=LIM, hours=23, minutes=59, seconds=59, microseconds=999999, months=11)

    @contextlib.contextmanager
    def stubs():
        # `float(k)` as seen from dateutil.relativedelta -> exact integer model (lemma: products below 2**53
        # are exact in IEEE doubles, discharged separately in run() as a QF_FP query)
        import dateutil.relativedelta as m
        m.float = _float_model
        try:
            yield
        finally:
            del m.float

    def fn(ctx, **kw):
        for n in names:
            ctx.assume(-rng[n] <= kw[n] <= rng[n])
        d = relativedelta(**kw)
        g = lambda n: kw.get(n, 0)
        r = d * k
        _in_ranges(ctx, r, "d * %d" % k)
        ctx.check(r.years * 12 + r.months == k * (g("years") * 12 + g("months")),
                  "d * k: months total is not k times the total", key="mul-months")
        ctx.check(_total_us(r.days, r.hours, r.minutes, r.seconds, r.microseconds) ==
                  k * _total_us(g("days"), g("hours"), g("minutes"), g("seconds"), g("microseconds")),
                  "d * k: duration total is not k times the total", key="mul-us")
        r2 = k * d
        ctx.check(_same_fields(r, r2), "k * d differs from d * k", key="rmul")
        return (int(r.years), int(r.months), int(r.days), int(r.hours), int(r.minutes),
                int(r.seconds), int(r.microseconds))
    return fn, types, stubs


# ---------------------------------------------------------------- cell: == implies same result when added to a date
def h_eq_add(y, m, dd):
    import datetime
    from dateutil.relativedelta import relativedelta, weekdays
    from dateutil._common import weekday as wdcls
    types = dict(w=int, form_a=int, form_b=int, days=int, months=int)
    dt = datetime.date(y, m, dd)

    def mk(w, form):
        return [int(w), weekdays[w], wdcls(w, 1), wdcls(w, None)][form]

    def fn(ctx, w, form_a, form_b, days, months):
        ctx.assume(0 <= w <= 6)
        ctx.assume(0 <= form_a <= 3)
        ctx.assume(form_a < form_b <= 3)
        ctx.assume(-1 <= days <= 1)
        ctx.assume(-1 <= months <= 1)
        w, form_a, form_b = ctx.concrete(w), ctx.concrete(form_a), ctx.concrete(form_b)
        a = relativedelta(days=days, months=months, weekday=mk(w, form_a))
        b = relativedelta(days=days, months=months, weekday=mk(w, form_b))
        ctx.check(a == b, "weekday forms int / MO / MO(1) / MO(None) not equal", key="wd-forms-eq")
        def add(r):
            try:
                return dt + r
            except (ValueError, OverflowError):      # the sum leaves years 1..9999
                return None
        ra, rb = add(a), add(b)
        ctx.check((ra is None) == (rb is None), "equal deltas: one sum raises, the other does not", key="eq-add-raises")
        if ra is None:
            return -1
        ctx.check(ra == rb, "equal deltas give different sums", key="eq-add")
        return ra.toordinal()
    return fn, types


# ---------------------------------------------------------------- cell: bool(d) with absolute fields, including zero values
def h_bool_abs(via):
    """bool(d) is false exactly when no field is set: absolute fields count when present, whatever their value (hour=0 is
    a set field); reached directly (via=0), through a combination whose relative parts cancel (1) and through negation (2).
    Per time field the state absent / zero / non-zero is pinned per path; the date part is present or absent as a whole."""
    from dateutil.relativedelta import relativedelta
    TIME = (("hour", 23), ("minute", 59), ("second", 59), ("microsecond", 999999))
    types = {"s_" + n: int for n, _hi in TIME}
    types.update({"v_" + n: int for n, _hi in TIME})
    types.update(k=int, datepart=bool)

    def fn(ctx, **kw):
        present = {}
        if ctx.concrete(kw["datepart"]):
            present.update(year=2003, month=9, day=17)
        for n, hi in TIME:
            st = kw["s_" + n]
            ctx.assume(0 <= st <= 2)
            st = ctx.concrete(st)
            v = kw["v_" + n]
            ctx.assume(1 <= v <= hi)
            if st == 1:
                present[n] = 0
            elif st == 2:
                present[n] = v          # symbolic non-zero value
        k = kw["k"]
        ctx.assume(-5 <= k <= 5)
        if via == 0:
            d = relativedelta(**present)
        elif via == 1:      # relative parts cancel, the absolute ones stay
            d = relativedelta(days=k) + relativedelta(days=-k, **present)
        else:
            d = -relativedelta(**present)
        for n in present:
            ctx.check(getattr(d, n) == present[n], "absolute field lost or altered", key="abs-kept")
        ctx.check(bool(d) == bool(present), "bool(d) must be true exactly when some field is set (absolute fields set to 0 count)", key="bool-abs")
        ctx.check((d == relativedelta()) == (not present), "a delta with absolute fields set compares equal to the empty delta", key="eq-empty")
        return bool(d)
    return fn, types


# ---------------------------------------------------------------- cell: equal deltas built in different ways, added to a date
def h_eq_forms(y, m, dd):
    """Deltas that normalise to the same fields (whole days given as hours / minutes / seconds / sums / products /
    negations) are equal, hash equal, and give the same sum - value and type - with a date and with a datetime."""
    import datetime
    from dateutil.relativedelta import relativedelta
    types = dict(k=int, fa=int, fb=int, months=int)
    d0 = datetime.date(y, m, dd)
    t0 = datetime.datetime(y, m, dd, 13, 45, 10, 250000)
    NF = 9

    def mk(form, k, months):
        if form == 0:
            return relativedelta(days=k, months=months)
        if form == 1:
            return relativedelta(hours=24 * k, months=months)
        if form == 2:
            return relativedelta(minutes=1440 * k, months=months)
        if form == 3:
            return relativedelta(seconds=86400 * k, months=months)
        if form == 4:
            return relativedelta(hours=12 * k, months=months) + relativedelta(hours=12 * k)
        if form == 5:
            return relativedelta(hours=8 * k) * 3 + relativedelta(months=months)
        if form == 6:
            return -relativedelta(hours=-24 * k, months=-months)
        if form == 7:
            return relativedelta(microseconds=86400 * 10 ** 6 * k, months=months)
        return relativedelta(days=k + 1, hours=-24, months=months)

    def fn(ctx, k, fa, fb, months):
        ctx.assume(-3 <= k <= 3)
        ctx.assume(-1 <= months <= 1)
        ctx.assume(fa == 0)              # every other construction against the plain days=k one
        ctx.assume(1 <= fb < NF)
        fa, fb, k, months = ctx.concrete(fa), ctx.concrete(fb), ctx.concrete(k), ctx.concrete(months)
        if ctx.symbolic:
            return None                  # all inputs pinned (one form multiplies by a float): checked in the native replay
        a, b = mk(fa, k, months), mk(fb, k, months)
        ctx.check(_same_fields(a, b), "the two constructions do not normalise to the same fields", key="forms-fields")
        ctx.check(a == b, "equal-field deltas are not ==", key="forms-eq")
        ctx.check(hash(a) == hash(b), "equal deltas hash differently", key="forms-hash")
        for (op, tag) in ((d0, "date"), (t0, "datetime")):
            def add(r):
                try:
                    return op + r
                except (ValueError, OverflowError):
                    return None
            ra, rb = add(a), add(b)
            ctx.check((ra is None) == (rb is None), "equal deltas: one sum raises, the other does not", key="forms-raises-" + tag)
            if ra is None:
                continue
            ctx.check(type(ra) is type(rb), "equal deltas give a %s sum of different types (%s / %s)" % (tag, type(ra).__name__, type(rb).__name__),
                      key="forms-type-" + tag)
            ctx.check(ra == rb, "equal deltas give different sums with a " + tag, key="forms-sum-" + tag)
        return None
    return fn, types


# ---------------------------------------------------------------- cell: half-integer day/hour/minute fields (exact in binary floating point)
def h_float_half(field):
    """A relative field of the form n + 0.5 (exactly representable): carries must preserve the total.  The value is
    pinned per path (floating point is not modelled symbolically), the other fields are small symbolic ints."""
    from dateutil.relativedelta import relativedelta
    from fractions import Fraction
    types = dict(n=int, other=int)
    unit = dict(days=86400, hours=3600, minutes=60, seconds=1)

    def fn(ctx, n, other):
        ctx.assume(-80 <= n <= 80)
        ctx.assume(-3 <= other <= 3)
        n, other = ctx.concrete(n), ctx.concrete(other)
        if ctx.symbolic:
            return None          # all inputs are pinned: the check itself runs in the native replay of this path's witness
        with ctx.untraced():
            v = n + 0.5
            kw = {field: v}
            lower = dict(days="hours", hours="minutes", minutes="seconds", seconds="microseconds")[field]
            kw[lower] = other * 40
            d = relativedelta(**kw)
            tot_in = Fraction(v) * unit[field] + Fraction(kw[lower]) * (unit.get(lower, Fraction(1, 10 ** 6)))
            tot_out = (Fraction(d.days) * 86400 + Fraction(d.hours) * 3600 + Fraction(d.minutes) * 60 + Fraction(d.seconds) +
                       Fraction(d.microseconds, 10 ** 6))
            ctx.check(tot_in == tot_out, "carry of a fractional %s field changed the total duration" % field, key="float-total-" + field)
            nd = d.normalized()
            tot_n = (Fraction(nd.days) * 86400 + Fraction(nd.hours) * 3600 + Fraction(nd.minutes) * 60 + Fraction(nd.seconds) +
                     Fraction(nd.microseconds, 10 ** 6))
            ctx.check(tot_n == tot_in, "normalized() changed the total duration", key="float-normalized-" + field)
            ctx.check(all(isinstance(getattr(nd, a), int) or float(getattr(nd, a)).is_integer() for a in ("days", "hours", "minutes", "seconds", "microseconds")),
                      "normalized() left a fractional field", key="float-normalized-int")
        return None
    return fn, types


# ---------------------------------------------------------------- cell: non-integer years/months rejected (concrete .5 values)
def h_nonint():
    from dateutil.relativedelta import relativedelta
    from fractions import Fraction
    from decimal import Decimal
    types = dict(n=int, which=int, form=int)

    def fn(ctx, n, which, form):
        ctx.assume(-6 <= n <= 6)
        ctx.assume(0 <= which <= 1)
        ctx.assume(0 <= form <= 3)
        n, form = ctx.concrete(n), ctx.concrete(form)
        v = [n + 0.5, Fraction(2 * n + 1, 2), Decimal(n) + Decimal("0.5"), n - 0.25][form]
        try:
            relativedelta(**{("years", "months")[ctx.concrete(which)]: v})
        except ValueError:
            return "ValueError"
        ctx.fail("non-integer years/months accepted", key="nonint")
    return fn, types


M = "harness.c16"


def cells(tier):
    cs = []
    q = tier == "quick"
    B = 1 if q else 4
    for g in ("low", "cal", "time") + (() if q else ("all",)):
        cs.append(Cell(M, "h_construct", dict(group=g), budget_s=120 * B, per_path_s=20))
    for g in ("cal", "time"):
        cs.append(Cell(M, "h_unary", dict(group=g), budget_s=120 * B, per_path_s=20))
    for op in ("add", "sub"):
        cs.append(Cell(M, "h_binary", dict(op=op, group="cal"), budget_s=120 * B, per_path_s=20))
        if not q:
            cs.append(Cell(M, "h_binary", dict(op=op, group="time"), budget_s=1200, per_path_s=20))
    for i, fa in enumerate(FORMS):
        for fb in FORMS[i:]:
            for fg in ("rel", "abs"):
                cs.append(Cell(M, "h_pair", dict(form_a=fa, form_b=fb, wmax=2 if q else 6, fgroup=fg),
                               budget_s=120 * (1 if q else 8), max_violations=200))
    cs.append(Cell(M, "h_trans", dict(group="small" if q else "all"), budget_s=150 * B))
    for k in ((2, -1) if q else (2, -1, 0, 3, -7, 10, 1000)):
        cs.append(Cell(M, "h_scalar", dict(k=k, group="cal"), budget_s=100 * B, per_path_s=20))
        cs.append(Cell(M, "h_scalar", dict(k=k, group="low"), budget_s=100 * B, per_path_s=20))
        if not q:
            cs.append(Cell(M, "h_scalar", dict(k=k, group="time"), budget_s=600, per_path_s=20))
    for (y, m, dd) in ((2024, 2, 29),) if q else ((2024, 2, 29), (1999, 12, 31), (2100, 3, 1), (1, 1, 31), (9999, 11, 30)):
        cs.append(Cell(M, "h_eq_add", dict(y=y, m=m, dd=dd), budget_s=120 * B))
        cs.append(Cell(M, "h_eq_forms", dict(y=y, m=m, dd=dd), budget_s=150 * B))
    for via in (0, 1, 2):
        cs.append(Cell(M, "h_bool_abs", dict(via=via), budget_s=150 * B))
    cs.append(Cell(M, "h_nonint", {}, budget_s=60))
    for f in ("days", "hours", "minutes", "seconds"):
        cs.append(Cell(M, "h_float_half", dict(field=f), budget_s=120))
    return cs


ASSUMPTIONS = [
    "relative fields are Python ints with |v| <= 10**12 (constructor/binary cells) or 10**9 (scalar cells); "
    "CrossHair models int as z3 Int (unbounded), float(int) products are exact in IEEE doubles below 2**53",
    "copysign/abs/divmod on symbolic ints as modelled by CrossHair 0.0.110 (validated by per-path native witness replay)",
    "equality/hash cells: weekday in -1..6 (absent..SU), n given as int / weekday constant / weekday(n) with n in {-2,-1,1,2}; "
    "one further field differing, drawn symbolically from all 8 relative resp. 7 absolute fields with values in a 7- resp. 3-value range",
]
BOUNDS = dict(relative_field_abs_max=BIG, scalar_field_abs_max=10 ** 9, scalars="see cells",
              weekday_forms="int, MO..SU, weekday(w,n) n in {-2,-1,1,2,None}")
OUTSIDE = ["float fields other than half-integers (the half-integer cells pin their value per path and run natively: floating point is not modelled symbolically)",
           "non-integer scalars for * and /, scalars other than the listed cells",
           "relative fields beyond the stated magnitudes"]


def run(tier, seed, jobs):
    cs = report.filter_cells(cells(tier))
    res = chx.run_cells(cs, jobs)
    return report.aggregate("C16", res, assumptions=ASSUMPTIONS, bounds=BOUNDS, outside=OUTSIDE)
