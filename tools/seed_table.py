#!/usr/bin/env python3
"""Regenerate the seeded-changes table of DESIGN.md from seeded/*/meta.json."""
import glob, json, os, re
HERE = os.path.dirname(os.path.dirname(os.path.abspath(__file__)))
rows = []
for f in sorted(glob.glob(os.path.join(HERE, "seeded", "*", "meta.json"))):
    m = json.load(open(f))
    d = os.path.dirname(f)
    notes = open(os.path.join(d, "notes.md")).read() if os.path.exists(os.path.join(d, "notes.md")) else ""
    title = ""
    for line in notes.splitlines():
        line = line.strip().lstrip("#").strip()
        if line:
            title = re.sub(r"^(C\d\d )?[Ss]eed \d+\s*[-:—–]*\s*", "", line)[:110]
            break
    rows.append((m["name"], m["property"], title, "yes" if m.get("confirmed") else "NO", 
                 ("caught (exit 1, %d VIOLATION lines)" % m.get("check_violation_lines", 0)) if m.get("detected") else ("missed (exit %s)" % m.get("check_exit")),
                 m.get("note", "")))
out = ["| seed | property | change | confirmed | quick check against it | note |", "|---|---|---|---|---|---|"]
for r in rows:
    out.append("| %s | %s | %s | %s | %s | %s |" % r)
caught = sum(1 for r in rows if r[4].startswith("caught"))
out.append("")
out.append("%d of %d confirmed seeds are caught by the quick tier of their property's check." % (caught, len(rows)))
p = os.path.join(HERE, "DESIGN.md")
s = open(p).read()
s = re.sub(r"<!-- SEED-TABLE-BEGIN -->.*?<!-- SEED-TABLE-END -->", "<!-- SEED-TABLE-BEGIN -->\n" + "\n".join(out) + "\n<!-- SEED-TABLE-END -->", s, flags=re.S)
open(p, "w").write(s)
print("\n".join(out[-3:]))
